/*
 * refsched.h - reference model of the fibre scheduler, written from the
 * statements of C01-C03 (not from fibre.c).  Arrays and counters only.
 *
 *  - FIFO run queue; a fibre already queued is not queued again
 *  - accepted interrupt-context requests (<= 8) join, in arrival order, at the
 *    next pass or fibre_run/fibre_kill call
 *  - then the fibre that yielded in the previous pass, then the sleepers that
 *    are due (due time, then registration order)
 *  - making a sleeper runnable by any means, or killing it, cancels its timeout
 *  - exited/failed fibres restart from their beginning
 *  - time is 64-bit and never wraps here; the library is given t mod 2^32
 */
#ifndef REFSCHED_H_
#define REFSCHED_H_

#include <stdbool.h>
#include <stdint.h>

#define RS_MAXF 8
#define RS_ATOMIC_DEPTH 8

enum { RS_Y = 0, RS_W = 1, RS_E = 2, RS_F = 3 };

/* events worth counting for the non-triviality rule */
#define RSF_COALESCED (1u << 0)
#define RSF_TWO_ATOMIC_PENDING (1u << 1)
#define RSF_KILL_TRUE (1u << 2)
#define RSF_RESTART (1u << 3)
#define RSF_YIELDER_WITH_SLEEPER (1u << 4)
#define RSF_MULTI_EXPIRY (1u << 5)
#define RSF_CANCELLED_SLEEPER (1u << 6)
#define RSF_ATOMIC_REFUSED (1u << 7)
#define RSF_EQUAL_DUE (1u << 8)
#define RSF_WRAP_WINDOW (1u << 9)
#define RSF_IDLE_PASS (1u << 10)
#define RSF_WAKEUP_FROM_TIMER (1u << 11)

typedef struct {
	int nf;
	int runq[RS_MAXF + 1], nrun;
	int atomq[RS_ATOMIC_DEPTH], natom;
	int prev_yielder;
	struct {
		bool active;
		int64_t due;
		uint64_t regno;
	} sleep[RS_MAXF];
	int64_t cancelled_due[RS_MAXF]; /* last cancelled timeout, for diagnosis */
	bool has_cancelled[RS_MAXF];
	uint64_t regctr;
	bool restart[RS_MAXF];
	int current;
	int64_t now;
	bool released_by_timer[RS_MAXF]; /* in the pass being executed */
	int nreleased;
	uint32_t flags;
} refsched_t;

static void rs_init(refsched_t *rs, int nf)
{
	memset(rs, 0, sizeof(*rs));
	rs->nf = nf;
	rs->prev_yielder = -1;
	rs->current = -1;
	for (int i = 0; i < RS_MAXF; i++)
		rs->restart[i] = true;
}

static bool rs_in_runq(const refsched_t *rs, int f)
{
	for (int i = 0; i < rs->nrun; i++)
		if (rs->runq[i] == f)
			return true;
	return false;
}

static void rs_cancel_sleep(refsched_t *rs, int f)
{
	if (rs->sleep[f].active) {
		rs->sleep[f].active = false;
		rs->cancelled_due[f] = rs->sleep[f].due;
		rs->has_cancelled[f] = true;
		rs->flags |= RSF_CANCELLED_SLEEPER;
	}
}

static void rs_make_runnable(refsched_t *rs, int f)
{
	if (rs_in_runq(rs, f)) {
		rs->flags |= RSF_COALESCED;
		return;
	}
	rs_cancel_sleep(rs, f);
	rs->runq[rs->nrun++] = f;
}

static void rs_drain_atomics(refsched_t *rs)
{
	for (int i = 0; i < rs->natom; i++)
		rs_make_runnable(rs, rs->atomq[i]);
	rs->natom = 0;
}

static void rs_run(refsched_t *rs, int f)
{
	rs_drain_atomics(rs);
	rs_make_runnable(rs, f);
}

static bool rs_run_atomic(refsched_t *rs, int f)
{
	if (rs->natom >= RS_ATOMIC_DEPTH) {
		rs->flags |= RSF_ATOMIC_REFUSED;
		return false;
	}
	rs->atomq[rs->natom++] = f;
	if (rs->natom >= 2)
		rs->flags |= RSF_TWO_ATOMIC_PENDING;
	return true;
}

static bool rs_kill(refsched_t *rs, int f)
{
	bool res = false;
	rs_drain_atomics(rs);
	for (int i = 0; i < rs->nrun; i++)
		if (rs->runq[i] == f) {
			for (int j = i; j < rs->nrun - 1; j++)
				rs->runq[j] = rs->runq[j + 1];
			rs->nrun--;
			res = true;
			break;
		}
	if (rs->sleep[f].active) {
		rs_cancel_sleep(rs, f);
		res = true;
	}
	if (res)
		rs->flags |= RSF_KILL_TRUE;
	return res;
}

/* called by the running fibre f; returns what fibre_timeout must return */
static bool rs_timeout(refsched_t *rs, int f, int64_t due)
{
	if (due <= rs->now)
		return true;
	if (!rs_in_runq(rs, f)) {
		for (int i = 0; i < rs->nf; i++)
			if (rs->sleep[i].active && rs->sleep[i].due == due)
				rs->flags |= RSF_EQUAL_DUE;
		rs->sleep[f].active = true;
		rs->sleep[f].due = due;
		rs->sleep[f].regno = rs->regctr++;
	}
	return false;
}

/* start of a pass at time t: returns the fibre that must be dispatched, -1 = idle */
static int rs_pass_begin(refsched_t *rs, int64_t t)
{
	rs->now = t;
	rs->nreleased = 0;
	for (int i = 0; i < RS_MAXF; i++)
		rs->released_by_timer[i] = false;
	rs_drain_atomics(rs);
	if (rs->prev_yielder >= 0) {
		bool any_sleeper = false;
		for (int i = 0; i < rs->nf; i++)
			if (rs->sleep[i].active && i != rs->prev_yielder)
				any_sleeper = true;
		if (any_sleeper && rs->nrun == 0)
			rs->flags |= RSF_YIELDER_WITH_SLEEPER;
		rs_make_runnable(rs, rs->prev_yielder);
		rs->prev_yielder = -1;
	}
	/* expired sleepers in (due, registration) order */
	for (;;) {
		int best = -1;
		for (int i = 0; i < rs->nf; i++)
			if (rs->sleep[i].active && rs->sleep[i].due <= t &&
			    (best < 0 || rs->sleep[i].due < rs->sleep[best].due ||
			     (rs->sleep[i].due == rs->sleep[best].due && rs->sleep[i].regno < rs->sleep[best].regno)))
				best = i;
		if (best < 0)
			break;
		rs->sleep[best].active = false;
		rs->released_by_timer[best] = true;
		rs->nreleased++;
		/* a sleeper is never in the run queue (see rs_timeout / rs_make_runnable) */
		rs->runq[rs->nrun++] = best;
	}
	if (rs->nreleased >= 2)
		rs->flags |= RSF_MULTI_EXPIRY;
	if (rs->nrun == 0) {
		rs->current = -1;
		rs->flags |= RSF_IDLE_PASS;
		return -1;
	}
	int f = rs->runq[0];
	for (int j = 0; j < rs->nrun - 1; j++)
		rs->runq[j] = rs->runq[j + 1];
	rs->nrun--;
	rs->current = f;
	return f;
}

/* after the dispatched fibre returned `state` (only if one was dispatched) */
static void rs_pass_end(refsched_t *rs, int state)
{
	int f = rs->current;
	if (f < 0)
		return;
	rs->restart[f] = false;
	if (state == RS_Y)
		rs->prev_yielder = f;
	else if (state == RS_E || state == RS_F) {
		rs->restart[f] = true;
	}
}

/* value fibre_scheduler_next must return; call after rs_pass_end */
static uint32_t rs_expected_wakeup(refsched_t *rs, bool *from_timer)
{
	*from_timer = false;
	if (rs->nrun > 0 || rs->prev_yielder >= 0 || rs->natom > 0)
		return (uint32_t)rs->now;
	int best = -1;
	for (int i = 0; i < rs->nf; i++)
		if (rs->sleep[i].active && (best < 0 || rs->sleep[i].due < rs->sleep[best].due))
			best = i;
	if (best >= 0) {
		*from_timer = true;
		rs->flags |= RSF_WAKEUP_FROM_TIMER;
		return (uint32_t)rs->sleep[best].due;
	}
	return (uint32_t)rs->now + 0x7fffffffu;
}

#endif

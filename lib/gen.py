"""Generators of auxiliary source files (run at build time of a stage)."""
import os
import random


def constexpr_table(ctx, bdir):
    rnd = random.Random(ctx.seed * 1000003 + 16)
    vals = [0]
    for i in range(64):
        for j in range(i + 1):
            vals.append((1 << i) | (1 << j))
    for i in range(64):
        for j in range(i, 64):
            vals.append(((1 << (j - i + 1)) - 1) << i)
    n_rand = 4000 if ctx.tier == 'thorough' else 600
    for _ in range(n_rand):
        c = rnd.getrandbits(64) >> rnd.randrange(64)
        if rnd.randrange(3) == 0:
            c = (c << rnd.randrange(64)) & ((1 << 64) - 1)
        vals.append(c)
    path = os.path.join(bdir, 'constexpr_table.c')
    with open(path, 'w') as f:
        f.write('#include <stdint.h>\n#include <librfn/constexpr.h>\n'
                'struct ce_entry { uint64_t c; int pop; int lssb; };\n'
                'const struct ce_entry ce_table[] = {\n')
        for n, c in enumerate(vals):
            if n % 3 == 2:
                # the constant written as an expression of low precedence (macro hygiene)
                hi, lo = c & 0xffffffff00000000, c & 0xffffffff
                f.write('{0x%xull, const_pop(0x%xull | 0x%xull), const_lssb(0x%xull ^ 0x%xull)},\n' % (c, hi, lo, hi, lo))
            else:
                f.write('{0x%xull, const_pop(0x%xull), const_lssb(0x%xull)},\n' % (c, c, c))
        f.write('};\nconst unsigned ce_table_len = sizeof(ce_table)/sizeof(ce_table[0]);\n')
    return [path]

"""C08: generator of protothread programs.

An abstract program (effects, assignments to persistent variables, if/else, bounded loops over persistent counters,
PT_YIELD, PT_WAIT, PT_WAIT_UNTIL with a counted side effect, PT_EXIT(_ON), PT_FAIL(_ON), PT_SPAWN, PT_SPAWN_AND_CHECK,
PT_CALL, PT_CHILD_OK) is rendered twice:

  * as C using the real include/librfn/protothreads.h (one PT_* blocking macro per source line, none inside a nested
    switch, PT_CHILD_OK consulted before the next blocking point, re-invocation after exit only after PT_INIT);
  * as the expected trace, by *running* it with an interpreter built on Python generators, whose semantics are exactly
    "a sequential program cut at its blocking points".

The C driver (harness/pt_driver.c) invokes every program until it exits or fails, twice (PT_INIT in between), logs the
return code and the side effects of every invocation and compares with the expected trace compiled in as a string.
"""
import os
import random

Y, W, E, F = 'Y', 'W', 'E', 'F'


class Done(Exception):
    def __init__(self, state):
        self.state = state


class Ctx:
    """persistent state of one protothread function instance"""

    def __init__(self, nchildren):
        self.v = [0, 0, 0, 0]
        self.c = [0] * 8
        self.polls = [0] * 8
        self.children = [None] * nchildren


class Gen:
    def __init__(self, rnd, prog_id):
        self.rnd = rnd
        self.pid = prog_id
        self.funcs = []  # list of (name, body, nchildren)
        self.next_effect = 1
        self.flags = set()
        self.npolls = 0
        self.init = [rnd.randrange(4) for _ in range(4)]

    # ------------------------------------------------------------------ generation
    def effect(self):
        e = self.next_effect
        self.next_effect += 1
        return ('E', e)

    def cond(self):
        r = self.rnd
        return ('cond', r.randrange(4), r.choice(['<', '>=', '==', '!=']), r.randrange(4))

    def block(self, depth, loopdepth, fdepth, inloop, incond, budget, fstate):
        """returns list of statements; fstate: dict(nchildren, npoll)"""
        r = self.rnd
        out = []
        n = r.randint(1, 4 if depth else 6)
        for _ in range(n):
            if budget[0] <= 0:
                break
            budget[0] -= 1
            x = r.random()
            if x < 0.22:
                out.append(self.effect())
            elif x < 0.30:
                out.append(('A', r.randrange(4), r.randrange(4), r.randint(1, 3), r.randint(2, 5)))
            elif x < 0.40:
                out.append(('YIELD',))
                self.note_block(inloop, incond)
            elif x < 0.46:
                out.append(('WAIT',))
                self.note_block(inloop, incond)
            elif x < 0.53 and fstate['npoll'] < 8:
                k = fstate['npoll']
                fstate['npoll'] += 1
                out.append(('WAIT_UNTIL', k, r.randint(1, 3)))
                self.note_block(inloop, incond)
            elif x < 0.61 and depth < 4:
                t = self.block(depth + 1, loopdepth, fdepth, inloop, True, budget, fstate)
                e = self.block(depth + 1, loopdepth, fdepth, inloop, True, budget, fstate) if r.random() < 0.5 else None
                out.append(('IF', self.cond(), t, e))
            elif x < 0.72 and depth < 4 and loopdepth < 3:
                body = self.block(depth + 1, loopdepth + 1, fdepth, True, incond, budget, fstate)
                out.append(('FOR', loopdepth + 4 * 0, r.randint(1, 3), body))
            elif x < 0.76:
                out.append(('EXIT_ON', self.cond()) if r.random() < 0.7 else ('EXIT',))
            elif x < 0.80:
                out.append(('FAIL_ON', self.cond()) if r.random() < 0.7 else ('FAIL',))
                self.flags.add('fail')
            elif x < 0.93 and fdepth < 3 and fstate['nchildren'] < 4:
                ci = fstate['nchildren']
                fstate['nchildren'] += 1
                child = self.function(fdepth + 1, budget)
                kind = r.choice(['SPAWN', 'SPAWN', 'SPAWN_CHECK', 'CALL', 'SPAWN_OK'])
                out.append((kind, ci, child, self.next_effect, self.next_effect + 1))
                self.next_effect += 2
                if inloop:
                    self.flags.add('spawn_in_loop')
                if kind != 'CALL':
                    self.note_block(inloop, incond)
            else:
                out.append(self.effect())
        return out

    def note_block(self, inloop, incond):
        if inloop and incond:
            self.flags.add('block_in_loop_in_cond')

    def function(self, fdepth, budget):
        idx = len(self.funcs)
        self.funcs.append(None)
        fstate = {'nchildren': 0, 'npoll': 0}
        body = self.block(0, 0, fdepth, False, False, budget, fstate)
        # children usually announce themselves and may fail
        if fdepth > 0:
            body.insert(0, self.effect())
            if self.rnd.random() < 0.3:
                body.append(('FAIL_ON', self.cond()))
                self.flags.add('failing_child')
        self.funcs[idx] = ('p%d_f%d' % (self.pid, idx), body, fstate['nchildren'])
        return idx

    # ------------------------------------------------------------------ C rendering
    def c_cond(self, c):
        _, a, op, k = c
        # half of the conditions evaluate to a truth value other than 1 (a mask / count style condition)
        # and some of those a value that is true only as long as it is not converted to an integer type (0.5)
        if (a + k) % 2:
            if (3 * a + k) % 3 == 0:
                return '((x->v[%d] %s %d) * 0.5)' % (a, op, k)
            return '((x->v[%d] %s %d) * %d)' % (a, op, k, 2 + a + k)
        return '(x->v[%d] %s %d)' % (a, op, k)

    SIMPLE = ('E', 'A', 'YIELD', 'WAIT', 'WAIT_UNTIL', 'EXIT', 'EXIT_ON', 'FAIL', 'FAIL_ON', 'SPAWN', 'SPAWN_CHECK', 'CALL')

    def bare(self, block):
        """render this body without braces?  deterministic in the body's content (render_c is called twice)"""
        if len(block) != 1 or block[0][0] not in self.SIMPLE:
            return False
        if block[0][0] == 'CALL' and block[0][1] % 2:
            return False  # rendered as two statements (the call and the report of its result)
        if sum(hash_stmt(block[0])) % 3 == 0:
            return False
        self.flags.add('bare_body')
        if block[0][0] in ('SPAWN', 'SPAWN_CHECK', 'CALL'):
            self.flags.add('bare_spawn')
        return True

    def render_block(self, block, ind, lines, loopbase):
        t = '\t' * ind
        for s in block:
            k = s[0]
            if k == 'E':
                lines.append('%semit(%d);' % (t, s[1]))
            elif k == 'A':
                lines.append('%sx->v[%d] = (x->v[%d] + %d) %% %d;' % (t, s[1], s[2], s[3], s[4]))
            elif k == 'YIELD':
                lines.append('%sPT_YIELD();' % t)
            elif k == 'WAIT':
                lines.append('%sPT_WAIT();' % t)
            elif k == 'WAIT_UNTIL':
                # every other condition is an unparenthesised comparison (macro hygiene: !(c) versus !c)
                if (s[1] + s[2]) % 2:
                    lines.append('%sPT_WAIT_UNTIL(poll(x, %d, %d) == %d);' % (t, s[1], s[2], 2 + 5 * s[1]))
                else:
                    lines.append('%sPT_WAIT_UNTIL(poll(x, %d, %d));' % (t, s[1], s[2]))
            elif k == 'IF':
                # a body that is one simple statement is written without braces two times out of three
                # (every PT_ macro must then behave as one statement)
                # (never the first branch of an if/else: a macro that wrongly expands to two statements would
                # then fail to compile here although it compiles wherever the library's users wrote it differently)
                tb = s[3] is None and self.bare(s[2])
                eb = s[3] is not None and self.bare(s[3])
                lines.append('%sif %s%s' % (t, self.c_cond(s[1]), '' if tb else ' {'))
                self.render_block(s[2], ind + 1, lines, loopbase)
                if s[3] is not None:
                    lines.append('%s%selse%s' % (t, '' if tb else '} ', '' if eb else ' {'))
                    self.render_block(s[3], ind + 1, lines, loopbase)
                    if not eb:
                        lines.append('%s}' % t)
                elif not tb:
                    lines.append('%s}' % t)
            elif k == 'FOR':
                cv = 'x->c[%d]' % loopbase
                fb = self.bare(s[3])
                lines.append('%sfor (%s = 0; %s < %d; %s++)%s' % (t, cv, cv, s[2], cv, '' if fb else ' {'))
                self.render_block(s[3], ind + 1, lines, loopbase + 1)
                if not fb:
                    lines.append('%s}' % t)
            elif k == 'EXIT':
                lines.append('%sPT_EXIT();' % t)
            elif k == 'EXIT_ON':
                lines.append('%sPT_EXIT_ON(%s);' % (t, self.c_cond(s[1])))
            elif k == 'FAIL':
                lines.append('%sPT_FAIL();' % t)
            elif k == 'FAIL_ON':
                lines.append('%sPT_FAIL_ON(%s);' % (t, self.c_cond(s[1])))
            elif k in ('SPAWN', 'SPAWN_CHECK', 'CALL', 'SPAWN_OK'):
                ci, child = s[1], s[2]
                call = '%s(&x->cpt[%d], cctx_of(x, %d))' % (self.funcs[child][0], ci, ci)
                if k == 'SPAWN':
                    lines.append('%sPT_SPAWN(&x->cpt[%d], %s);' % (t, ci, call))
                elif k == 'SPAWN_CHECK':
                    lines.append('%sPT_SPAWN_AND_CHECK(&x->cpt[%d], %s);' % (t, ci, call))
                elif k == 'CALL':
                    if ci % 2:
                        # the only way to learn the result of a PT_CALL: an assignment as the thread argument
                        # (an expression of lower precedence than the comparison inside the macro)
                        lines.append('%sPT_CALL(&x->cpt[%d], pt_last_res = %s);' % (t, ci, call))
                        lines.append('%semit(pt_last_res == PT_FAILED ? %d : pt_last_res == PT_EXITED ? %d : 9999);' % (t, s[4], s[3]))
                    else:
                        lines.append('%sPT_CALL(&x->cpt[%d], %s);' % (t, ci, call))
                else:
                    lines.append('%sPT_SPAWN(&x->cpt[%d], %s);' % (t, ci, call))
                    lines.append('%sif (PT_CHILD_OK())' % t)
                    lines.append('%s\temit(%d);' % (t, s[3]))
                    lines.append('%selse' % t)
                    lines.append('%s\temit(%d);' % (t, s[4]))

    def render_c(self):
        out = []
        # forward declarations
        for name, _, _ in self.funcs:
            out.append('static pt_state_t %s(pt_t *pt, ctx_t *x);' % name)
        for name, body, _ in self.funcs:
            lines = ['static pt_state_t %s(pt_t *pt, ctx_t *x)' % name, '{', '\tPT_BEGIN(pt);']
            self.render_block(body, 1, lines, 0)
            lines.append('\tPT_END();')
            lines.append('}')
            out += lines
        return out

    # ------------------------------------------------------------------ reference semantics (generators)
    def ev_cond(self, c, ctx):
        _, a, op, k = c
        v = ctx.v[a]
        return {'<': v < k, '>=': v >= k, '==': v == k, '!=': v != k}[op]

    def run_block(self, block, ctx, trace, loopbase):
        for s in block:
            k = s[0]
            if k == 'E':
                trace.append(s[1])
            elif k == 'A':
                ctx.v[s[1]] = (ctx.v[s[2]] + s[3]) % s[4]
            elif k == 'YIELD':
                yield Y
            elif k == 'WAIT':
                yield W
            elif k == 'WAIT_UNTIL':
                while True:
                    # poll(): counted side effect, visible in the trace
                    ctx.polls[s[1]] += 1
                    trace.append(1000 + s[1])
                    if ctx.polls[s[1]] % (s[2] + 1) == 0:
                        break
                    yield W
            elif k == 'IF':
                if self.ev_cond(s[1], ctx):
                    yield from self.run_block(s[2], ctx, trace, loopbase)
                elif s[3] is not None:
                    yield from self.run_block(s[3], ctx, trace, loopbase)
            elif k == 'FOR':
                ctx.c[loopbase] = 0
                while ctx.c[loopbase] < s[2]:
                    yield from self.run_block(s[3], ctx, trace, loopbase + 1)
                    ctx.c[loopbase] += 1
            elif k == 'EXIT':
                raise Done(E)
            elif k == 'EXIT_ON':
                if self.ev_cond(s[1], ctx):
                    raise Done(E)
            elif k == 'FAIL':
                raise Done(F)
            elif k == 'FAIL_ON':
                if self.ev_cond(s[1], ctx):
                    raise Done(F)
            elif k in ('SPAWN', 'SPAWN_CHECK', 'SPAWN_OK', 'CALL'):
                ci, child = s[1], s[2]
                if ctx.children[ci] is None:
                    ctx.children[ci] = Ctx(self.funcs[child][2])
                    ctx.children[ci].v = [ctx.v[(j + ci + 1) % 4] for j in range(4)]
                cctx = ctx.children[ci]
                g = self.run_thread(child, cctx, trace)  # the child starts from its beginning each time
                res = None
                while res is None:
                    try:
                        r = next(g)
                    except StopIteration as st:
                        res = st.value
                        break
                    if k != 'CALL':
                        yield r  # relay the child's yield / wait upward unchanged
                if k == 'SPAWN_CHECK' and res == F:
                    raise Done(F)
                if k == 'SPAWN_OK' or (k == 'CALL' and ci % 2):
                    trace.append(s[3] if res != F else s[4])

    def run_thread(self, fidx, ctx, trace):
        """generator: yields Y/W at blocking points, returns E or F"""
        try:
            yield from self.run_block(self.funcs[fidx][1], ctx, trace, 0)
        except Done as d:
            return d.state
        return E

    def expected(self, max_inv):
        """two runs of the top-level thread (PT_INIT in between, persistent variables kept)"""
        ctx = Ctx(self.funcs[0][2])
        ctx.v = list(self.init)
        log = []
        for run in range(2):
            g = self.run_thread(0, ctx, None)
            # trace list is swapped per invocation
            trace = []
            g = self.run_thread(0, ctx, trace)
            n = 0
            while True:
                del trace[:]
                try:
                    r = next(g)
                    log.append('%s:%s' % (r, ','.join(map(str, trace))))
                except StopIteration as st:
                    log.append('%s:%s' % (st.value, ','.join(map(str, trace))))
                    break
                n += 1
                if n > max_inv:
                    return None
            log.append('|')
        return ';'.join(log)


def hash_stmt(st):
    """small integers out of a statement tuple (ints and operator strings), for deterministic choices"""
    for x in st:
        if isinstance(x, int):
            yield x
        elif isinstance(x, str):
            yield sum(map(ord, x))
        elif isinstance(x, tuple):
            yield from hash_stmt(x)


def count_children(funcs):
    return max([f[2] for f in funcs] + [0])


def generate_file(path, seed, first_id, count, tag):
    rnd = random.Random(seed)
    progs = []
    pid = first_id
    attempts = 0
    while len(progs) < count and attempts < count * 20:
        attempts += 1
        g = Gen(rnd, pid)
        budget = [rnd.randint(6, 40)]
        g.function(0, budget)
        # functions are numbered in creation order; function 0 is the top level
        exp = g.expected(400)
        if exp is None or len(exp) > 6000:
            continue
        progs.append((pid, g, exp))
        pid += 1
    with open(path, 'w') as f:
        f.write('/* generated by lib/ptgen.py - %d protothread programs */\n' % len(progs))
        f.write('#include "pt_driver.h"\n\n')
        for pid_, g, exp in progs:
            f.write('\n'.join(g.render_c()))
            f.write('\n\n')
        f.write('const prog_t pt_programs_%s[] = {\n' % tag)
        for pid_, g, exp in progs:
            src = '\\n'.join(l.replace('\\', '\\\\').replace('"', '\\"').replace('\t', '  ') for l in g.render_c())
            if len(src) > 3000:
                src = src[:3000] + '...'
            flags = (1 if 'block_in_loop_in_cond' in g.flags else 0) | (2 if 'spawn_in_loop' in g.flags else 0) | \
                    (4 if 'failing_child' in g.flags else 0) | (8 if 'bare_body' in g.flags else 0) | \
                    (16 if 'bare_spawn' in g.flags else 0)
            f.write('\t{ %d, p%d_f0, %d, {%s}, "%s",\n\t  "%s" },\n' % (pid_, pid_, flags, ','.join(map(str, g.init)), exp, src))
        f.write('};\nconst unsigned pt_programs_%s_len = %d;\n' % (tag, len(progs)))
    return len(progs)


def pregen(nfiles, per_file):
    def fn(ctx, bdir):
        paths = []
        idx = []
        for i in range(nfiles):
            p = os.path.join(bdir, 'pt_programs_%d.c' % i)
            generate_file(p, ctx.seed * 7919 + i * 104729 + 8, i * per_file, per_file, str(i))
            paths.append(p)
            idx.append(i)
        with open(os.path.join(bdir, 'pt_index.c'), 'w') as f:
            f.write('#include "pt_driver.h"\n')
            for i in idx:
                f.write('extern const prog_t pt_programs_%d[]; extern const unsigned pt_programs_%d_len;\n' % (i, i))
            f.write('const prog_t *const pt_sets[] = {%s};\n' % ', '.join('pt_programs_%d' % i for i in idx))
            f.write('const unsigned *const pt_set_lens[] = {%s};\n' % ', '.join('&pt_programs_%d_len' % i for i in idx))
            f.write('const unsigned pt_nsets = %d;\n' % len(idx))
        paths.append(os.path.join(bdir, 'pt_index.c'))
        return paths
    return fn

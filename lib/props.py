"""Per-property stage tables (see DESIGN.md section 3)."""
from driver import Stage

R = 'librfn/'
UTIL = [R + 'util.c', R + 'posix/time_posix.c', R + 'string.c']

PROPS = {}


NOT_YET = {}
HOOK_COMMITS = []
ENGINES = [
    {'name': 'E1', 'path': 'harness/ + rt/vh.h', 'kind_free_text':
     'sequential differential harnesses (real code in lock-step with a reference model) under ASan+UBSan',
     'serves_properties': []},
]


def prop(pid, rule, stages, assumptions=(), exhaustive_claim=False, exhaustive_note=None, **meta):
    PROPS[pid] = {'id': pid, 'rule': rule, 'stages': stages, 'assumptions': list(assumptions),
                  'exhaustive_claim': exhaustive_claim, 'exhaustive_note': exhaustive_note}
    PROPS[pid].update(meta)


# ----------------------------------------------------------------------- C19
prop('C19',
     'sweep: every reachable model state (last_state, latch position L, live offset P-L within +-1024 quarter '
     'steps) x 4 next states, each visited once by construction, driven through rotenc_decode only; walks: random '
     'signal sequences with dwell, bounce and invalid jumps. Non-trivial = transition taken while live position '
     'differs from the latched one, or within a click of a multiple of 256 clicks; distinct by construction in the '
     'sweep (counted), by (case,minP,maxP) signature for walks.',
     [Stage('sweep', ['harness/rotenc.c'], [R + 'rotenc.c'], preset='O2', nproc=16,
            needs_min={'model_states_probed': 1000000}),
      Stage('walk-asan', ['harness/rotenc.c'], [R + 'rotenc.c'], preset='asan', nproc=16,
            args={'quick': ['--extra', 'walk'], 'thorough': ['--extra', 'walk']},
            needs_min={'walks': 8})],
     assumptions=['the model in harness/rotenc.c (20 lines) is the statement of C19',
                  'struct rotenc is copied opaquely with memcpy to snapshot decoder states'],
     exhaustive_claim=False,
     exhaustive_note='sweep stage enumerates every reachable (last_state, L, P-L in +-1024, next) completely',
     engine='E1', technique='runtime monitoring: real decoder driven in lock-step with a reference model over an '
     'enumerated state sweep and random walks, ASan+UBSan on the walks',
     level_text='Exploration. Every reachable model state within +-256 clicks of live/latched divergence and every '
     'next input is executed against the real rotenc.c and compared with an independent position model; long random '
     'walks with bounce and invalid jumps run under ASan+UBSan. Held on the executions observed, not a proof.',
     level_note='Trusts the 20-line model in harness/rotenc.c as the reading of the statement; snapshots decoder '
     'state by opaque memcpy.')

import gen

# ----------------------------------------------------------------------- C16
prop('C16',
     'exh: every 32-bit argument of bitcnt/clz/ctz (and every non-zero one of ilog2) against compiler builtins, '
     'arguments distinct by construction (non-trivial = not among the 64 single-bit/zero-ish arguments, counted); '
     'macros: all one- and two-bit patterns, all contiguous masks, random values, evaluated at run time on a '
     'volatile object and at compile time as static initialisers (distinct = distinct 64-bit arguments, hashed).',
     [Stage('exh', ['harness/bitops.c'], [R + 'bitops.c'], preset='O2', nproc=16, pregen=gen.constexpr_table,
            args={'quick': ['--extra', 'exh'], 'thorough': ['--extra', 'exh']},
            needs_min={'arguments_checked_per_function': 1 << 32}),
      Stage('asan', ['harness/bitops.c'], [R + 'bitops.c'], preset='asan', nproc=4, pregen=gen.constexpr_table,
            args={'quick': ['--extra', 'asan'], 'thorough': ['--extra', 'asan']},
            needs_min={'macro_compile_time_constants': 4000, 'macro_rt_contiguous_masks': 2080}),
      Stage('asan-clang', ['harness/bitops.c'], [R + 'bitops.c'], preset='asan', cc='clang', nproc=2,
            pregen=gen.constexpr_table, tiers=('thorough',),
            args={'thorough': ['--extra', 'asan']})],
     assumptions=['__builtin_popcount/clz/ctz are the mathematical definitions (cross-checked against naive bit '
                  'loops on 2^20 values each run)'],
     exhaustive_claim=False,
     exhaustive_note='the exh stage covers all 2^32 arguments of bitcnt, clz, ctz and all non-zero arguments of '
                     'ilog2; the 64-bit macro domain is sampled',
     engine='E1', technique='runtime monitoring: exhaustive differential execution against compiler builtins; '
     'ASan+UBSan sample; compile-time evaluation forced through static initialisers',
     level_text='Exploration, exhaustive for the four functions: all 2^32 arguments are executed on the real code at '
     '-O2 and compared with the builtin definitions; the macros are evaluated on all one/two-bit patterns, all '
     'contiguous masks and random constants both at run time and as static initialisers.',
     level_note='Trusts the compiler builtins as the definition (self-checked against naive loops). The macro domain '
     '(2^64) is sampled, not enumerated.')

# ----------------------------------------------------------------------- C17
prop('C17',
     'exh: every state 1..2^31-2 once (distinct by construction); non-trivial = states in Carta\'s carry case '
     '(high and low parts of 16807*s fold to >= 2^31-1), counted exactly; traj: the orbit of seed 1.',
     [Stage('exh', ['harness/rand31.c'], [R + 'rand.c'], preset='O2', nproc=16,
            args={'quick': ['--extra', 'exh'], 'thorough': ['--extra', 'exh']},
            needs_min={'states_checked': 2147483646}),
      Stage('asan-sample', ['harness/rand31.c'], [R + 'rand.c'], preset='asan', nproc=8,
            args={'quick': ['--extra', 'sample'], 'thorough': ['--extra', 'sample']}),
      Stage('traj', ['harness/rand31.c'], [R + 'rand.c'], preset='O2', nproc=1,
            args={'quick': ['--extra', 'traj'], 'thorough': ['--extra', 'traj']},
            needs_min={'trajectory_steps': 1 << 28})],
     assumptions=['64-bit arithmetic (16807*s) % (2^31-1) is the definition'],
     exhaustive_note='exh stage covers all 2^31-2 valid states; thorough traj stage walks the whole orbit of 1',
     engine='E1', technique='runtime monitoring: exhaustive differential execution against 64-bit reference '
     'arithmetic; UBSan sample; orbit walk',
     level_text='Exploration, exhaustive over the state space: every one of the 2^31-2 states is fed to the real '
     'rand31_r and the successor, the stored state and the range are compared with 64-bit arithmetic; the thorough '
     'tier additionally walks the complete orbit of seed 1 and observes the period 2^31-2 directly.',
     level_note='Trusts 64-bit modular arithmetic as the reference. Quick tier observes the first 2^28 orbit steps only.')

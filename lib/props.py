"""Per-property stage tables (see DESIGN.md section 3)."""
from driver import Stage

R = 'librfn/'
UTIL = [R + 'util.c', R + 'posix/time_posix.c', R + 'string.c']

PROPS = {}


NOT_YET = {}
HOOK_COMMITS = []
ENGINES = [
    {'name': 'E1', 'path': 'harness/ + rt/vh.h', 'kind_free_text':
     'sequential differential harnesses (real code in lock-step with a reference model) under ASan+UBSan',
     'serves_properties': []},
]


def prop(pid, rule, stages, assumptions=(), exhaustive_claim=False, exhaustive_note=None, **meta):
    PROPS[pid] = {'id': pid, 'rule': rule, 'stages': stages, 'assumptions': list(assumptions),
                  'exhaustive_claim': exhaustive_claim, 'exhaustive_note': exhaustive_note}
    PROPS[pid].update(meta)


# ----------------------------------------------------------------------- C19
prop('C19',
     'sweep: every reachable model state (last_state, latch position L, live offset P-L within +-1024 quarter '
     'steps) x 4 next states, each visited once by construction, driven through rotenc_decode only; walks: random '
     'signal sequences with dwell, bounce and invalid jumps. Non-trivial = transition taken while live position '
     'differs from the latched one, or within a click of a multiple of 256 clicks; distinct by construction in the '
     'sweep (counted), by (case,minP,maxP) signature for walks.',
     [Stage('sweep', ['harness/rotenc.c'], [R + 'rotenc.c'], preset='O2', nproc=16,
            needs_min={'model_states_probed': 1000000}),
      Stage('walk-asan', ['harness/rotenc.c'], [R + 'rotenc.c'], preset='asan', nproc=16,
            args={'quick': ['--extra', 'walk'], 'thorough': ['--extra', 'walk']},
            needs_min={'walks': 8})],
     assumptions=['the model in harness/rotenc.c (20 lines) is the statement of C19',
                  'struct rotenc is copied opaquely with memcpy to snapshot decoder states'],
     exhaustive_claim=False,
     exhaustive_note='sweep stage enumerates every reachable (last_state, L, P-L in +-1024, next) completely',
     engine='E1', technique='runtime monitoring: real decoder driven in lock-step with a reference model over an '
     'enumerated state sweep and random walks, ASan+UBSan on the walks',
     level_text='Exploration. Every reachable model state within +-256 clicks of live/latched divergence and every '
     'next input is executed against the real rotenc.c and compared with an independent position model; long random '
     'walks with bounce and invalid jumps run under ASan+UBSan. Held on the executions observed, not a proof.',
     level_note='Trusts the 20-line model in harness/rotenc.c as the reading of the statement; snapshots decoder '
     'state by opaque memcpy.')

"""Per-property stage tables (see DESIGN.md section 3)."""
from driver import Stage, tsan_post, memcheck_post

R = 'librfn/'
UTIL = [R + 'util.c', R + 'posix/time_posix.c', R + 'string.c']

PROPS = {}


NOT_YET = {}
HOOK_COMMITS = ['f017b0b790465086183ecbf250c53f6db2d5bf6b', '293f178a895aff0e9b75affc20f96bc07df8a315', '75f0ae304fc8ed4bd9d0c6dd47629e437890e6b9']
ENGINES = [
    {'name': 'E1', 'path': 'harness/*.c + rt/vh.h + models/refsched.h + lib/ptgen.py',
     'kind_free_text': 'sequential differential harnesses: the real code in lock-step with a small reference model over '
                       'generated / enumerated histories, inputs, geometries and programs, under ASan+UBSan (gcc; clang '
                       'and other optimisation levels in the thorough tier)',
     'serves_properties': ['C01', 'C02', 'C03', 'C05', 'C08', 'C09', 'C10', 'C11', 'C12', 'C13', 'C14', 'C15', 'C16',
                           'C17', 'C18', 'C19', 'C20']},
    {'name': 'E2', 'path': 'rt/shim.c rt/shim.h + harness/sched_isr.c mq_conc.c rb.c console_isr.c',
     'kind_free_text': 'schedule control through a private ThreadSanitizer runtime: librfn is compiled with '
                       '-fsanitize=thread but linked against our own __tsan_* entry points, so every atomic and plain '
                       'access is a schedule point; interrupt handlers are injected at every point (single sweep, nested '
                       'pairs, random), and ucontext coroutines are scheduled at random or by priorities (PCT); guard '
                       'zones; serialised, replayable from the seed',
     'serves_properties': ['C01', 'C03', 'C04', 'C05', 'C06', 'C15']},
    {'name': 'E3', 'path': 'harness/threads.c + lib/driver.py:tsan_post',
     'kind_free_text': 'real pthreads on 16 cores under the genuine ThreadSanitizer (happens-before race detection; reports '
                       'taken from its log) and under ASan+UBSan; also over the fallback atomics of atomic.h',
     'serves_properties': ['C04', 'C05', 'C06', 'C07']},
    {'name': 'E4', 'path': 'harness/threads.c (--extra signal)',
     'kind_free_text': 'real asynchronous nested signals (POSIX interval timers) interrupting the thread that runs the '
                       'scheduler, ASan+UBSan build',
     'serves_properties': ['C06']},
]


def prop(pid, rule, stages, assumptions=(), exhaustive_claim=False, exhaustive_note=None, **meta):
    PROPS[pid] = {'id': pid, 'rule': rule, 'stages': stages, 'assumptions': list(assumptions),
                  'exhaustive_claim': exhaustive_claim, 'exhaustive_note': exhaustive_note}
    PROPS[pid].update(meta)


# ----------------------------------------------------------------------- C19
prop('C19',
     'sweep: every reachable model state (last_state, latch position L, live offset P-L within +-1024 quarter '
     'steps) x 4 next states, each visited once by construction, driven through rotenc_decode only; walks: random '
     'signal sequences with dwell, bounce and invalid jumps. Non-trivial = transition taken while live position '
     'differs from the latched one, or within a click of a multiple of 256 clicks; distinct by construction in the '
     'sweep (counted), by (case,minP,maxP) signature for walks.',
     [Stage('sweep', ['harness/rotenc.c'], [R + 'rotenc.c'], preset='O2', nproc=16,
            needs_min={'model_states_probed': 1000000}),
      Stage('walk-asan', ['harness/rotenc.c'], [R + 'rotenc.c'], preset='asan', nproc=16,
            args={'quick': ['--extra', 'walk'], 'thorough': ['--extra', 'walk']},
            needs_min={'walks': 8})],
     assumptions=['the model in harness/rotenc.c (20 lines) is the statement of C19',
                  'struct rotenc is copied opaquely with memcpy to snapshot decoder states'],
     exhaustive_claim=False,
     exhaustive_note='sweep stage enumerates every reachable (last_state, L, P-L in +-1024, next) completely',
     engine='E1', technique='runtime monitoring: real decoder driven in lock-step with a reference model over an '
     'enumerated state sweep and random walks, ASan+UBSan on the walks',
     level_text='Exploration. Every reachable model state within +-256 clicks of live/latched divergence and every '
     'next input is executed against the real rotenc.c and compared with an independent position model; long random '
     'walks with bounce and invalid jumps run under ASan+UBSan. Held on the executions observed, not a proof.',
     level_note='Trusts the 20-line model in harness/rotenc.c as the reading of the statement; snapshots decoder '
     'state by opaque memcpy.')

import gen

# ----------------------------------------------------------------------- C16
prop('C16',
     'exh: every 32-bit argument of bitcnt/clz/ctz (and every non-zero one of ilog2) against compiler builtins, '
     'arguments distinct by construction (non-trivial = not among the 64 single-bit/zero-ish arguments, counted); '
     'macros: all one- and two-bit patterns, all contiguous masks, random values, evaluated at run time on a '
     'volatile object and at compile time as static initialisers (distinct = distinct 64-bit arguments, hashed), '
     'with arguments of twelve integer types (8 to 64 bits, signed and unsigned, zero of each) and 32 typed constants.',
     [Stage('exh', ['harness/bitops.c'], [R + 'bitops.c'], preset='O2', nproc=16, pregen=gen.constexpr_table,
            args={'quick': ['--extra', 'exh'], 'thorough': ['--extra', 'exh']},
            needs_min={'arguments_checked_per_function': 1 << 32}),
      Stage('asan', ['harness/bitops.c'], [R + 'bitops.c'], preset='asan', nproc=4, pregen=gen.constexpr_table,
            args={'quick': ['--extra', 'asan'], 'thorough': ['--extra', 'asan']},
            needs_min={'macro_compile_time_constants': 4000, 'macro_rt_contiguous_masks': 2080,
                       'macro_rt_typed_zero_arguments': 100, 'macro_compile_time_typed_constants': 32}),
      Stage('asan-clang', ['harness/bitops.c'], [R + 'bitops.c'], preset='asan', cc='clang', nproc=2,
            pregen=gen.constexpr_table, tiers=('thorough',),
            args={'thorough': ['--extra', 'asan']})],
     assumptions=['__builtin_popcount/clz/ctz are the mathematical definitions (cross-checked against naive bit '
                  'loops on 2^20 values each run)'],
     exhaustive_claim=False,
     exhaustive_note='the exh stage covers all 2^32 arguments of bitcnt, clz, ctz and all non-zero arguments of '
                     'ilog2; the 64-bit macro domain is sampled',
     engine='E1', technique='runtime monitoring: exhaustive differential execution against compiler builtins; '
     'ASan+UBSan sample; compile-time evaluation forced through static initialisers',
     level_text='Exploration, exhaustive for the four functions: all 2^32 arguments are executed on the real code at '
     '-O2 and compared with the builtin definitions; the macros are evaluated on all one/two-bit patterns, all '
     'contiguous masks and random constants both at run time and as static initialisers.',
     level_note='Trusts the compiler builtins as the definition (self-checked against naive loops). The macro domain '
     '(2^64) is sampled, not enumerated.')

# ----------------------------------------------------------------------- C17
prop('C17',
     'exh: every state 1..2^31-2 once (distinct by construction); non-trivial = states in Carta\'s carry case '
     '(high and low parts of 16807*s fold to >= 2^31-1), counted exactly; traj: the orbit of seed 1.',
     [Stage('exh', ['harness/rand31.c'], [R + 'rand.c'], preset='O2', nproc=16,
            args={'quick': ['--extra', 'exh'], 'thorough': ['--extra', 'exh']},
            needs_min={'states_checked': 2147483646}),
      Stage('asan-sample', ['harness/rand31.c'], [R + 'rand.c'], preset='asan', nproc=8,
            args={'quick': ['--extra', 'sample'], 'thorough': ['--extra', 'sample']}),
      Stage('traj', ['harness/rand31.c'], [R + 'rand.c'], preset='O2', nproc=1,
            args={'quick': ['--extra', 'traj'], 'thorough': ['--extra', 'traj']},
            needs_min={'trajectory_steps': 1 << 28})],
     assumptions=['64-bit arithmetic (16807*s) % (2^31-1) is the definition'],
     exhaustive_claim=True, exhaustive_stage='exh',
     exhaustive_note='exhaustive: true refers to the exh stage, which feeds every one of the 2^31-2 valid states (the '
                     'whole input space the property quantifies over) to rand31_r; the thorough traj stage walks the whole orbit of 1',
     engine='E1', technique='runtime monitoring: exhaustive differential execution against 64-bit reference '
     'arithmetic; UBSan sample; orbit walk',
     level_text='Exploration, exhaustive over the state space: every one of the 2^31-2 states is fed to the real '
     'rand31_r and the successor, the stored state and the range are compared with 64-bit arithmetic; the thorough '
     'tier additionally walks the complete orbit of seed 1 and observes the period 2^31-2 directly.',
     level_note='Trusts 64-bit modular arithmetic as the reference. Quick tier observes the first 2^28 orbit steps only.')

# ----------------------------------------------------------------------- C20
MLOG = [R + 'mlog.c'] + UTIL
prop('C20',
     'hist: random interleavings of mlog bursts (counts landing within 3 of every multiple of 256 up to 5x256), '
     'mlog_nice, mlog_clear and reads, every mlog_get_line(k) for k in 0..255 plus 12 out-of-range k and mlog_dump '
     'compared with the model after every operation; wraphook: counter placed 0..600 below 0x7fffffff with '
     'mlog_verif_set_count after a real prefill, then logged across the fold; wrapreal (thorough): 2^31+1000 real '
     'mlog calls. Non-trivial = history that passes 256 messages or makes mlog_nice refuse, or crosses the fold; '
     'distinct by (final count, flags, case) signature.',
     [Stage('hist', ['harness/mlog.c'], MLOG, preset='asan', nproc=16,
            args={'quick': ['--extra', 'hist'], 'thorough': ['--extra', 'hist']},
            needs_min={'get_line_comparisons': 100000, 'histories_passing_256_or_refusing_nice': 100,
                       'messages_with_empty_text': 1000, 'messages_with_star_width_or_precision': 1000,
                       'messages_with_percent_sign_in_text': 1000}),
      Stage('wraphook', ['harness/mlog.c'], MLOG, preset='asan', nproc=16,
            args={'quick': ['--extra', 'wraphook'], 'thorough': ['--extra', 'wraphook']},
            needs_min={'histories_crossing_counter_fold(hook)': 50}),
      Stage('wrapreal', ['harness/mlog.c'], MLOG, preset='O2', nproc=1, tiers=('thorough',),
            args={'thorough': ['--extra', 'wrapreal']},
            needs_min={'messages_really_logged': 1 << 31})],
     assumptions=['snprintf with the same format and arguments is the expected text',
                  'quick tier reaches the counter fold through the guarded hook mlog_verif_set_count(); the thorough '
                  'tier also reaches it by really logging 2^31 messages'],
     engine='E1', technique='runtime monitoring: lock-step reference model over generated histories, ASan+UBSan; '
     'counter fold reached by hook (quick) and by 2^31 real calls (thorough)',
     level_text='Exploration. Generated histories of mlog/mlog_nice/mlog_clear/reads are executed on the real mlog.c in '
     'lock-step with a ring model; all 256 line reads, out-of-range reads and the dump are compared after every '
     'operation, at counts clustered on multiples of 256 and on both sides of the 2^31 counter fold.',
     level_note='Format strings are drawn from a fixed pool of 9 (0-3 arguments, two with a string argument, one of them with strings of every length 0..199). '
     'The hook only writes the counter; slot contents always come from real mlog calls.')

# ----------------------------------------------------------------------- C18
HEX = [R + 'hex.c'] + UTIL
prop('C18',
     'rt: byte arrays of every length 0..99, lengths within 2 of multiples of 16 up to 4096 and random lengths, four '
     'value styles, dumped with hex_dump_to_file and parsed back; fuzz: random strings over hex digits, x, colon, '
     'blanks, newlines and arbitrary bytes (four flavours); struct: texts rendered from known bytes with optional 0x, '
     'mixed case, separators from the whole isspace class (blank, tab, CR, VT, FF), blank lines and an address prefix on every line or none. Non-trivial = multi-line '
     'dump, or string ending inside a pair / after 0x / multi-line with a colon, or multi-line structured text with '
     'prefix; distinct by content hash. Every byte returned is traced to the two hex digits in front of the resume '
     'pointer; every other text is placed over the previous one in a long-lived block (no memory of addresses).',
     [Stage('rt', ['harness/hex.c'], HEX, preset='asan', nproc=8,
            args={'quick': ['--extra', 'rt'], 'thorough': ['--extra', 'rt']}, needs_min={'round_trips': 1000}),
      Stage('fuzz', ['harness/hex.c'], HEX, preset='asan', nproc=16,
            args={'quick': ['--extra', 'fuzz'], 'thorough': ['--extra', 'fuzz']},
            needs_min={'fuzz_strings_ending_after_0x': 10, 'fuzz_strings_yielding_bytes': 1000,
                       'bytes_traced_to_their_hex_pair': 10000, 'texts_placed_over_an_earlier_text': 1000}),
      Stage('struct', ['harness/hex.c'], HEX, preset='asan', nproc=16,
            args={'quick': ['--extra', 'struct'], 'thorough': ['--extra', 'struct']},
            needs_min={'structured_texts_multiline_with_prefix': 1000, 'structured_texts_with_cr_vt_ff_separators': 1000}),
      Stage('fuzz-clang', ['harness/hex.c'], HEX, preset='asan', cc='clang', nproc=16, tiers=('thorough',),
            args={'thorough': ['--extra', 'fuzz', '--cases', '4000000']})],
     assumptions=['an address prefix is used on every line of a text or on none (the parser looks for the next colon '
                  'anywhere in the remaining text)',
                  'input strings live in exactly-sized heap blocks, so a read past the NUL is an ASan report'],
     engine='E1', technique='runtime monitoring: round-trip and rendered-text oracles plus protocol monitor '
     '(range, termination bound, sticky end) under ASan+UBSan on exactly-sized heap strings',
     level_text='Exploration. Dumps of generated byte arrays are parsed back and compared; arbitrary and structured '
     'texts are parsed under a protocol monitor (values in -1..255, -1 within strlen/2+2 calls and sticky, resume '
     'pointer inside the string) with ASan watching every read.',
     level_note='Sampled input space; ASan red zones see only adjacent over-reads (strings are exactly sized so the '
     'first byte past the NUL is a red zone).')

# ----------------------------------------------------------------------- C09
LIST = [R + 'list.c']
prop('C09',
     'exh: every operation string of length 5 (quick) / 6 (thorough) over a 25-operation alphabet (2 lists, 4 nodes; '
     'insert, push, sorted insert with 2 keys, extract, remove of each node, iterate, contains+iterator, iterator '
     'next/insert/remove) from starting shapes of 0..3 nodes, strings with an inapplicable operation pruned; rand: '
     'random strings of 10-200 operations over 3 lists and 8 nodes with iterator sessions. Non-trivial = string that '
     'removes the last or only element of a list and later inserts at its tail or head; distinct by construction '
     '(exh) or by hash of the operation string (rand).',
     [Stage('exh', ['harness/list.c'], LIST, preset='asan', nproc=16,
            args={'quick': ['--extra', 'exh'], 'thorough': ['--extra', 'exh']},
            needs_min={'exhaustive_strings_executed': 100000}, timeout={'quick': 600, 'thorough': 7200}),
      Stage('rand', ['harness/list.c'], LIST, preset='asan', nproc=16,
            args={'quick': ['--extra', 'rand'], 'thorough': ['--extra', 'rand']},
            needs_min={'random_strings_nontrivial': 1000, 'strings_with_sorted_insert_among_equal_keys': 1000}),
      Stage('rand-clang-O2', ['harness/list.c'], LIST, preset='asan-O2', cc='clang', nproc=16, tiers=('thorough',),
            args={'thorough': ['--extra', 'rand', '--cases', '4000000']})],
     assumptions=['scope of the statement: a node is never inserted while it is a member of a list; '
                  'list_iterator_remove is only called with a current element (the library asserts otherwise)',
                  'an iterator is dropped by the harness when its list is modified other than through it'],
     exhaustive_note='exh stage: all strings of the stated length over the reduced alphabet',
     engine='E1', technique='runtime monitoring: lock-step abstract-sequence model over enumerated and random '
     'operation strings, full observation after every operation, ASan+UBSan',
     level_text='Exploration. Every operation string up to a bounded length over a reduced alphabet, and random long '
     'strings over 3 lists/8 nodes, run on the real list.c in lock-step with an array model; after every operation '
     'the traversal (raw and through the iterator API), every return value, list_contains for every (list,node), the '
     'iterator position and the next pointers of non-members are compared.',
     level_note='Bounded depth for the exhaustive part; iterator validity follows the weakest reading (no guarantee '
     'after the list is modified behind the iterator).')

# ----------------------------------------------------------------------- C12
PACK = [R + 'pack.c'] + UTIL
prop('C12',
     'hist: random strings of 1-24 implemented pack/unpack operations (pack only, unpack only or mixed) over every '
     'buffer size 0..40, item sizes steered to end exactly at, one past, and far beyond the end, NULL and real '
     'sources/destinations in exactly-sized heap blocks; vals: all 65536 values through each 16-bit packer/unpacker at '
     '3 offsets, all byte values through the single-byte readers, all single-byte and walking-one 32-bit patterns plus '
     'random ones with read-back. Non-trivial = string whose first non-fitting item starts strictly inside the buffer '
     'and is followed by a smaller item that would have fitted there; distinct by hash of (size, operation string).',
     [Stage('hist', ['harness/pack.c'], PACK, preset='asan', nproc=16,
            args={'quick': ['--extra', 'hist'], 'thorough': ['--extra', 'hist']},
            needs_min={'strings_nontrivial': 1000, 'strings_with_exact_fit_at_end': 1000}),
      Stage('vals', ['harness/pack.c'], PACK, preset='asan', nproc=16,
            args={'quick': ['--extra', 'vals'], 'thorough': ['--extra', 'vals']},
            needs_min={'values16_packed': 3 * 65536, 'values16_unpacked': 65536}),
      Stage('hist-clang-O2', ['harness/pack.c'], PACK, preset='asan-O2', cc='clang', nproc=16, tiers=('thorough',),
            args={'thorough': ['--extra', 'hist', '--cases', '4000000']})],
     assumptions=['only the operations that have a definition are exercised (pack: bytes,s16le,u16be,u16le,s32le,'
                  'u32le; unpack: bytes,char,s8,u8,u16le,u32le); total requested bytes stay below 2^31'],
     engine='E1', technique='runtime monitoring: lock-step byte-image model with sticky-overflow cursor, guard by '
     'exactly-sized heap blocks under ASan+UBSan',
     level_text='Exploration. Generated operation strings run on the real pack.c against a byte-image model whose '
     'expected bytes come from the operation names; buffer image, returned values, zero-fill, consumed and remaining '
     'are compared after every call and ASan sees any access outside the exactly-sized buffers.',
     level_note='Sampled histories; 16-bit value spaces exhaustive; 32-bit values sampled with all single-byte patterns.')

# ----------------------------------------------------------------------- C11
BT = [R + 'bintree.c'] + UTIL
NOPACKWARN = ['-Wno-address-of-packed-member']
prop('C11',
     'shapes: every binary tree shape with 0..11 (quick) / 0..14 (thorough) nodes, unranked from Catalan indices; each '
     'shape: in/pre/post-order iterators against recursive traversals, byte image of all nodes compared after '
     'completion, iterators re-run on the restored tree, bintree_free with free() as deallocator (log: exactly once, '
     'children before parents), and for shapes up to 7 nodes bintree_free_left/right at every node followed by freeing '
     'the remainder; the same again with every node at an address that is 2 mod 4; big: random shapes of 20-2000 nodes '
     'and degenerate/zig-zag chains; lists: list iterator vs bintree_traverse_list on pure left- and right-leaning '
     'spines of 0..12 list nodes with leaf and non-leaf elements. Non-trivial = shape with a node having both children '
     'whose left subtree has a right spine >= 2 (threads are created and undone); shapes are distinct by construction.',
     [Stage('shapes', ['harness/bintree.c'], BT, preset='asan', nproc=16, cflags=NOPACKWARN,
            args={'quick': ['--extra', 'shapes'], 'thorough': ['--extra', 'shapes']},
            needs_min={'shapes_tested': 82500, 'subtree_frees': 1000}, timeout={'quick': 600, 'thorough': 7200}),
      Stage('shapes-align2', ['harness/bintree.c'], BT, preset='asan', nproc=16,
            cflags=NOPACKWARN + ['-fno-sanitize=alignment'],
            args={'quick': ['--extra', 'shapes:align2', '--cases', '10'], 'thorough': ['--extra', 'shapes:align2', '--cases', '12']},
            needs_min={'shapes_tested': 23714}, timeout={'quick': 600, 'thorough': 7200}),
      Stage('big', ['harness/bintree.c'], BT, preset='asan', nproc=16, cflags=NOPACKWARN,
            args={'quick': ['--extra', 'big'], 'thorough': ['--extra', 'big']},
            needs_min={'big_shapes': 100, 'degenerate_chains': 4}),
      Stage('lists', ['harness/bintree.c'], BT, preset='asan', nproc=4, cflags=NOPACKWARN,
            args={'quick': ['--extra', 'lists'], 'thorough': ['--extra', 'lists']},
            needs_min={'list_spines_compared': 114, 'list_spines_nil_terminated': 36}),
      Stage('shapes-clang-O2', ['harness/bintree.c'], BT, preset='asan-O2', cc='clang', nproc=16, cflags=NOPACKWARN,
            tiers=('thorough',), args={'thorough': ['--extra', 'shapes', '--cases', '11']})],
     assumptions=['list spines are pure (every list node has two non-NULL children, the spine leans one way only), except that a right-leaning spine may end cons-cell style in an empty right link',
                  'the 2-mod-4 placement stage is built without UBSan\'s alignment check: the statement allows 2-byte '
                  'aligned nodes, which x86 executes, whereas the pointer members then are formally misaligned'],
     exhaustive_note='shapes stages enumerate every shape up to the stated node count',
     engine='E1', technique='runtime monitoring: exhaustive shape enumeration against recursive traversals, byte-image '
     'restoration oracle, deallocation-log monitor with free() under ASan (use-after-free detection)',
     level_text='Exploration, exhaustive up to a node bound: every tree shape up to 11/14 nodes is iterated three ways '
     'on the real bintree.c, compared with recursive traversals and with a byte snapshot after completion; freeing uses '
     'the real free() under ASan so any read of a deallocated node aborts; the deallocation log is checked for '
     'exactly-once and children-before-parents.',
     level_note='Shapes beyond the bound are sampled (random, chains). ASan detects use-after-free only while the block '
     'sits in quarantine (default 256 MB, far larger than these trees).')

# ----------------------------------------------------------------- C13 / C14
WAV = [R + 'wavheader.c', R + 'pack.c'] + UTIL
prop('C13',
     'rt: (format, channels, rate, frames) tuples - formats cycled, channels from {1,2,3,6,8,255,1000,16383,32767} or '
     'random up to the 16-bit block-align limit, rates from the usual set or random within the byte-rate window, '
     'frames in {0,1,2,1000,max that fits,random}, the frame count set once or changed - on a structure pre-filled '
     'with zeros, 0xff, random bytes, a valid header of another format, or an extensible header; rt:bigrate: the same '
     'with byte rates in [2^31,2^32) in a build without UBSan signed-overflow; dec: hand-built accepted byte strings '
     '(PCM fmt 16/17, float+fact, extensible with the 22-byte extension, fmt>=18 with skipped extension bytes, '
     'extensible+fact) decoded then re-encoded. Non-trivial = non-float format or dirty prior contents or non-zero '
     'frames (rt), extensible/skipped-extension strings (dec); distinct by tuple / content hash.',
     [Stage('rt', ['harness/wav.c'], WAV, preset='asan', nproc=16,
            args={'quick': ['--extra', 'rt'], 'thorough': ['--extra', 'rt']},
            needs_min={'tuples': 100000, 'tuples_on_dirty_struct': 10000}),
      Stage('rt-bigrate', ['harness/wav.c'], WAV, preset='asan-nosio', nproc=8,
            args={'quick': ['--extra', 'rt:bigrate', '--cases', '100000'], 'thorough': ['--extra', 'rt:bigrate', '--cases', '2000000']},
            needs_min={'tuples': 10000}),
      Stage('dec', ['harness/wav.c'], WAV, preset='asan', nproc=16,
            args={'quick': ['--extra', 'dec'], 'thorough': ['--extra', 'dec']},
            needs_min={'decode_first_accepted': 50000, 'headers_with_blank_or_odd_byte_rate': 1000, 'headers_with_blank_or_odd_block_align': 1000}),
      Stage('rt-clang-O2', ['harness/wav.c'], WAV, preset='asan-O2', cc='clang', nproc=16, tiers=('thorough',),
            args={'thorough': ['--extra', 'rt', '--cases', '2000000']})],
     assumptions=['sizes fit in 32 bits: block alignment <= 65535, data size + header <= 2^32-1, byte rate <= 2^32-1 '
                  '(rates are int, so <= 2^31-1)',
                  'structures are compared field by field, padding ignored'],
     engine='E1', technique='runtime monitoring: round-trip and arithmetic oracles written from the statement over '
     'generated tuples, dirty prior contents and hand-built byte strings, ASan+UBSan',
     level_text='Exploration. Generated tuples drive init/set_num_frames on dirty structures; validation, '
     'encode->decode equality field by field, equal lengths and the stated arithmetic between the size fields are '
     'checked; accepted hand-built byte strings are decoded and re-encoded and compared byte for byte.',
     level_note='Sampled tuple space. The decode-first direction covers the header grammars the decoder implements.')
prop('C14',
     'fuzz: random strings of 0..128 bytes (half with RIFF/WAVE magic and adversarial fmt sizes), valid headers of six '
     'kinds unmodified, with one or two size fields replaced by adversarial values (0,1,15..19,39..41,2^31+-1,2^32-k..) '
     'and the supplied length padded or truncated, or with one bit flipped; every truncation point of accepted '
     'headers; 102400 PCM-shaped headers whose data size, rate, block align, channels, format and bits take all combinations of boundary values (0, 1, 2^31-1, 2^31, 2^32-1, 10000, 65535 ...); validate/get_format/tostring on every resulting structure (failed, incomplete, accepted, truncated, '
     'all-zero). Non-trivial = string that passes the magic checks; distinct by content hash.',
     [Stage('fuzz', ['harness/wav.c'], WAV, preset='asan', nproc=16,
            args={'quick': ['--extra', 'fuzz'], 'thorough': ['--extra', 'fuzz']},
            needs_min={'strings_passing_magic': 100000, 'truncations_decoded': 100000, 'helper_triples_called': 100000,
                       'headers_whose_sub_format_tag_is_extensible_again': 1000,
                       'extreme_field_structures': 100000}),
      Stage('fuzz-clang', ['harness/wav.c'], WAV, preset='asan', cc='clang', nproc=16, tiers=('thorough',),
            args={'thorough': ['--extra', 'fuzz', '--cases', '4000000']})],
     assumptions=['the reference parser in harness/wav.c walks the chunk grammar the decoder implements with 64-bit '
                  'offsets; a negative return is always acceptable, a return above the supplied length only for an '
                  'incomplete header, a return within it only if it is the exact header size and >= 44'],
     engine='E1', technique='runtime monitoring: independent 64-bit reference parser as oracle for the return value, '
     'truncation sweep, ASan on exactly-sized inputs, fatal-signal monitor around the helper functions',
     level_text='Exploration. Hostile and mutated headers in exactly-sized heap blocks are decoded under ASan+UBSan; '
     'the return value is judged against an independent parser, every truncation of every accepted header is '
     'decoded, and validate/get_format/tostring are called on whatever structure results with fatal signals '
     'attributed to the case.',
     level_note='Sampled input space with adversarial size fields; ILP32 pointer-width effects cannot be run here.')

# ----------------------------------------------------------------------- C10
MQ = [R + 'messageq.c']
prop('C10',
     'exh: every history of length 7 (quick) / 9 (thorough) over {claim, send oldest claimed, send newest claimed, '
     'receive, release} for every depth 1..32 x message sizes {1,3,4,8,33} x slack {0,1,size-1}; rand: histories of '
     '3*depth..20*depth operations (one in six: 1200-2000 operations, so that more than 256 claims are made) for every depth 1..32 x sizes {1,2,3,4,5,7,8,12,16,24,33,100,255,256,1000,2115,4096,16384,65535} x slack '
     '{0,1,size-1}, sends permuted among claimed messages, three fill-level biases; every history runs on a queue made '
     'by messageq_init and on a twin made by MESSAGEQ_VAR_INIT. Non-trivial = history that wraps the slot index (or '
     'hits a full queue) and sends out of claim order; distinct by construction (exh) / hash of geometry+history.',
     [Stage('exh', ['harness/mq_seq.c'], MQ, preset='asan', nproc=16,
            args={'quick': ['--extra', 'exh'], 'thorough': ['--extra', 'exh']},
            needs_min={'exhaustive_histories_executed': 100000}, timeout={'quick': 600, 'thorough': 7200}),
      Stage('rand', ['harness/mq_seq.c'], MQ, preset='asan', nproc=16,
            args={'quick': ['--extra', 'rand'], 'thorough': ['--extra', 'rand']},
            needs_min={'histories_nontrivial': 10000, 'histories_with_claim_on_full_queue': 10000,
                       'histories_with_more_than_300_claims': 2000}),
      Stage('rand-clang-O2', ['harness/mq_seq.c'], MQ, preset='asan-O2', cc='clang', nproc=16, tiers=('thorough',),
            args={'thorough': ['--extra', 'rand', '--cases', '1000000']})],
     assumptions=['releases are issued in receive order (the API documents strict order); sends may be reordered '
                  'among claimed messages',
                  'UBSan shift-base is off: 1<<31 for the 32nd slot is the intended value (DESIGN 2.3)'],
     exhaustive_note='exh stage: all histories of the stated length per geometry',
     engine='E1', technique='runtime monitoring: lock-step slot-state model over enumerated and random histories for '
     'every geometry, payload patterns, twin queue from the static initialiser, ASan+UBSan on exactly-sized storage',
     level_text='Exploration. For every depth 1..32 and a range of message sizes and slacks, enumerated short histories '
     'and random long ones run on the real messageq.c against a slot-state model; returned pointers, NULLs, '
     'messageq_empty, payload patterns and slack bytes are compared after every operation, on a queue from '
     'messageq_init and on one from MESSAGEQ_VAR_INIT.',
     level_note='Sequential histories only (concurrency is C04). Exhaustive histories are too short to wrap deep queues; '
     'the random histories do.')

# ----------------------------------------------------------- C01 / C02 / C03
FIB = [R + 'fibre.c', R + 'list.c', R + 'messageq.c'] + UTIL
SCHED_ASSUME = ['models/refsched.h (about 200 lines, arrays and counters) is the reading of the statements of C01-C03; '
                'time in the model is 64-bit and never wraps, the library is given t mod 2^32',
                'fibre_verif_reset() (guarded hook) re-initialises the static scheduler between histories',
                'scope of the statement: at most one unsatisfied fibre_timeout per dispatch; time stays within 2^31 '
                'ticks of every pending due time']
prop('C01',
     'c01: random histories of 4-64 operations (passes, fibre_run, fibre_run_atomic incl. bursts that fill the 8-slot '
     'queue, fibre_kill) over 1-6 fibres whose bodies draw 0-3 inner actions (run / run_atomic / kill on any fibre, one '
     'fibre_timeout) and a return state per dispatch, trivial time arithmetic; c01sys: every string of length 5 (quick) '
     '/ 6 (thorough) over {run,run_atomic,kill}x{A,B,C}+pass for all 27 return policies in {Y,W,E}^3. After every '
     'operation the dispatched fibre, START/RESUME, fibre_self, kill and run_atomic results and the returned wake-up '
     'time are compared with the model. Non-trivial = history with a coalesced request, >= 2 atomic requests pending, '
     'a kill that returned true, or a lone yielder beside a sleeper; distinct by hash of the recorded history.',
     [Stage('rand', ['harness/sched_seq.c'], FIB, preset='asan', nproc=16,
            args={'quick': ['--extra', 'c01'], 'thorough': ['--extra', 'c01']},
            needs_min={'histories_nontrivial': 50000, 'histories_with_two_atomic_requests_pending': 10000,
                       'histories_with_effective_kill': 10000, 'dispatches_observed': 100000}),
      Stage('sys', ['harness/sched_seq.c'], FIB, preset='asan', nproc=16,
            args={'quick': ['--extra', 'c01sys'], 'thorough': ['--extra', 'c01sys']},
            needs_min={'passes': 100000}, timeout={'quick': 600, 'thorough': 7200}),
      Stage('rand-clang-O2', ['harness/sched_seq.c'], FIB, preset='asan-O2', cc='clang', nproc=16, tiers=('thorough',),
            args={'thorough': ['--extra', 'c01', '--cases', '6000000']})],
     assumptions=SCHED_ASSUME,
     exhaustive_note='sys stage: all strings of the stated length over 10 operations x 27 return policies',
     engine='E1', technique='runtime monitoring: lock-step reference scheduler model over generated and enumerated '
     'histories with scripted protothread fibre bodies, ASan+UBSan',
     level_text='Exploration. Generated and enumerated histories of outside and inside operations run on the real '
     'fibre.c in lock-step with a reference scheduler written from the statement; every dispatch (which fibre, from the '
     'beginning or resumed), fibre_self, every kill/run_atomic result and every returned wake-up time is compared.',
     level_note='Reasons for a dispatch are not observable, only dispatches; the model supplies the reasons. Histories '
     'are finite; interrupt-context arrival inside scheduler calls is C06/E2.')
prop('C02',
     'c02: random histories of 4-64 operations over 1-6 fibres that mostly sleep (fibre_timeout with dues at now, just '
     'past, +1, +2, small, equal to another sleeper\'s, 2^31-1 and 2^31-2 ahead), yield beside sleepers, and are run or '
     'killed while asleep; the time base is placed within {0,1,2,50,1000} ticks of 2^32, of 2^31, just after 0, or at '
     'random, and advances by 0, 1, exactly to a due, one before a due, a little past, or far (always within 2^31 of '
     'every pending due). No interrupt-context requests. Non-trivial = history with >= 2 sleepers released by one pass, '
     'or crossing a wrap point, or a cancelled sleeper; distinct by hash of the recorded history.',
     [Stage('rand', ['harness/sched_seq.c'], FIB, preset='asan', nproc=16,
            args={'quick': ['--extra', 'c02'], 'thorough': ['--extra', 'c02']},
            needs_min={'histories_with_several_expiries_in_one_pass': 10000, 'histories_crossing_a_wrap_point': 10000,
                       'histories_with_cancelled_sleeper': 10000, 'histories_with_equal_due_times': 5000,
                       'op_fibre_timeout': 100000}),
      Stage('rand-clang-O2', ['harness/sched_seq.c'], FIB, preset='asan-O2', cc='clang', nproc=16, tiers=('thorough',),
            args={'thorough': ['--extra', 'c02', '--cases', '6000000']})],
     assumptions=SCHED_ASSUME,
     engine='E1', technique='runtime monitoring: lock-step reference scheduler model with unwrapped 64-bit virtual time '
     'over generated histories around the 2^32 and 2^31 wrap points, ASan+UBSan',
     level_text='Exploration. Timer-centred histories run on the real fibre.c/list.c/util.c against a model that keeps '
     'unwrapped 64-bit time (so it never uses the cyclic comparison under test); the return value of every '
     'fibre_timeout, the pass at which every sleeper runs, the order of same-pass expiries and the absence of '
     'dispatches from cancelled timeouts are compared.',
     level_note='Sampled histories; windows straddling both wrap points are forced by construction of the time base.')
prop('C03',
     'seq: every pass of the C01-style and C02-style histories (returned wake-up time against the model: t if the run '
     'queue is non-empty, the dispatched fibre yielded or an interrupt-context request is pending; else the earliest '
     'pending due time; else t+0x7fffffff). Non-trivial = as for C01/C02 histories; distinct by history hash.',
     [Stage('seq-c01', ['harness/sched_seq.c'], FIB, preset='asan', nproc=16,
            args={'quick': ['--extra', 'c01:c03'], 'thorough': ['--extra', 'c01:c03']},
            needs_min={'wakeup_values_compared': 1000000, 'histories_with_wakeup_taken_from_timer': 10000}),
      Stage('seq-c02', ['harness/sched_seq.c'], FIB, preset='asan', nproc=16,
            args={'quick': ['--extra', 'c02:c03'], 'thorough': ['--extra', 'c02:c03']},
            needs_min={'wakeup_values_compared': 1000000, 'histories_with_wakeup_taken_from_timer': 10000})],
     assumptions=SCHED_ASSUME + ['in these stages only the wake-up clause is judged; a divergence in dispatch order '
                                 'ends the history and is counted (it is C01/C02 territory)'],
     engine='E1+E2', technique='runtime monitoring: lock-step reference model of the returned wake-up time over '
     'generated histories; interrupt placements inside the pass by compiler-instrumented schedule points',
     level_text='Exploration. The value returned by every fibre_scheduler_next call of the generated histories is '
     'compared with the model (runnable work -> t, else earliest due, else t+0x7fffffff).',
     level_note='Interrupt timing inside the pass is covered by the E2 stages (added below when built).')

# ----------------------------------------------------------------------- C04
SHIM = ['rt/shim.c']
prop('C04',
     'co: ucontext "threads" - 1-5 senders x 1-40 messages and one receiver that holds back 0..depth-1 messages, '
     'depth in {1,2,3,4,8,32}, message size 1-12, under uniform random schedules (switch probability 0.02/0.1/0.5 at '
     'every atomic or plain access of messageq.c) and PCT schedules (d=1..3), spin loops backing off; isr: 20 fixed '
     'scenarios (empty, part-full, full, claimed-but-unsent, index wrap, depth 1/2/3/4/32; main context as sender or '
     'receiver) with an interrupt-context sender (claim, fill, send) - or, in five of them, the receiver itself (receive, release) preempting a sender - injected before every schedule point, and a '
     'second one inside the first at every one of its points. Non-trivial = schedule/placement in which two claims '
     'overlapped or a claim was in flight while the queue was full; distinct by schedule hash / placement.',
     [Stage('isr', ['harness/mq_conc.c'] + SHIM, MQ, preset='shim', nproc=1,
            args={'quick': ['--extra', 'isr'], 'thorough': ['--extra', 'isr']},
            needs_min={'single_isr_placements': 150, 'nested_pair_placements': 1000, 'placements_nontrivial': 100}),
      Stage('co', ['harness/mq_conc.c'] + SHIM, MQ, preset='shim', nproc=16,
            args={'quick': ['--extra', 'co'], 'thorough': ['--extra', 'co']},
            needs_min={'runs_with_buffers_beyond_64KiB': 100, 'schedules_nontrivial': 5000, 'schedules_with_claim_in_flight_while_full': 1000,
                       'messages_delivered': 100000}),
      Stage('co-clang', ['harness/mq_conc.c'] + SHIM, MQ, preset='shim', cc='clang', nproc=16, tiers=('thorough',),
            args={'thorough': ['--extra', 'co', '--cases', '500000']})],
     assumptions=['execution under the shim is serialised, hence sequentially consistent; weak-memory behaviour is '
                  'C07\'s subject', 'releases are issued in receive order',
                  'order oracle uses the weakest reading: only if claim A returned before claim B was invoked must A '
                  'be received first',
                  'a buffer counts as free from the invocation of release for the double-hand-out oracle and as in use '
                  'until release returned for the spurious-failure oracle (benefit of the doubt both ways)'],
     exhaustive_note='isr stage: every placement of one ISR and of a nested pair in the 20 scenarios',
     engine='E2', technique='runtime monitoring with schedule control: compiler-instrumented schedule points '
     '(private __tsan_* runtime), interrupt-injection sweeps and random/PCT coroutine schedules; ownership-table, '
     'unique-id history and conservation oracles at the client boundary; guard zones',
     level_text='Exploration with fault enumeration of interrupt placements. The real messageq.c runs under a private '
     'TSan runtime that turns every atomic and plain access into a schedule point; an interrupt-context sender is '
     'injected at every point of 20 scenarios (and a second inside the first), and tens of thousands of random and '
     'priority-based coroutine schedules are run; ownership, payload, exactly-once, order, spurious-failure and '
     'free-count oracles watch the client boundary.',
     level_note='Interleavings are swept for <= 2 injected ISRs in fixed scenarios and sampled otherwise; not all '
     'schedules of all configurations.')

# --------------------------------------------------------- C06 and C03(b,c)
FIBI = [R + 'fibre.c', R + 'list.c', R + 'messageq.c'] + UTIL
ISR_STAGES = lambda sfx: [
    Stage('isr-sweep', ['harness/sched_isr.c'] + SHIM, FIBI, preset='shim', nproc=16,
          args={'quick': ['--extra', 'sweep' + sfx], 'thorough': ['--extra', 'sweep' + sfx]},
          needs_min={'single_isr_placements': 3000, 'isr_inside_scheduler_pass': 1000, 'isr_inside_fibre_body': 100, 'sleeper_ran_or_killed_another_fibre_before_sleeping': 100}),
    Stage('isr-nested', ['harness/sched_isr.c'] + SHIM, FIBI, preset='shim', nproc=16,
          args={'quick': ['--extra', 'nested' + sfx], 'thorough': ['--extra', 'nested' + sfx]},
          needs_min={'nested_pair_placements': 20000}, timeout={'quick': 900, 'thorough': 3600}),
    Stage('isr-random', ['harness/sched_isr.c'] + SHIM, FIBI, preset='shim', nproc=16,
          args={'quick': ['--extra', 'random' + sfx], 'thorough': ['--extra', 'random' + sfx]},
          needs_min={'random_runs': 10000, 'atomic_requests_refused(queue full)': 100}),
] + ([] if sfx == ':c03' else [
    Stage('co', ['harness/sched_isr.c'] + SHIM, FIBI, preset='shim', nproc=16,
          args={'quick': ['--extra', 'co' + sfx], 'thorough': ['--extra', 'co' + sfx]},
          needs_min={'coroutine_schedules': 5000, 'events_delivered': 10000})])
PROPS['C03']['stages'] += ISR_STAGES(':c03')
PROPS['C03']['rule'] += (' isr-*: the scenario family of C06 (event handler + yielder + sleeper, 10 scenarios, two of them with a sleeper that runs or kills another fibre before it asks for its timeout) under a '
                         'simulated main loop in virtual time with WFE semantics; an interrupt handler (6 kinds) injected '
                         'before every schedule point (sweep), pairs nested at every (p,q), and random multi-ISR runs; '
                         'clauses: request accepted before the last load of the request-queue flag word / before the '
                         'scheduler\'s last state modification must make the pass return t; no sleep decision with an '
                         'unserved request, a just-yielded fibre or an earlier timeout.')
PROPS['C03']['level_text'] += (' Interrupt timing: handlers are injected at every compiler-instrumented schedule point '
                               'of the scheduler and fibre code in 10 scenarios, nested pairs at every (p,q), plus random '
                               'runs; the sleep decision of a simulated main loop is monitored.')
PROPS['C03']['level_note'] = ('"The scheduler\'s final check" is read in two ways that both hold on the unchanged tree: the '
                              'last atomic load of the request queue\'s flag word in the pass (learned from the first '
                              'fetch_or in fibre_run_atomic), and - independent of where an implementation puts that load - '
                              'the scheduler\'s last plain write to its own state in the pass. Placements are swept for '
                              '<= 2 interrupts in fixed scenarios and sampled beyond.')
prop('C06',
     'isr-sweep: 10 scenarios from the quantifier\'s family (event-handling fibre with a 4-slot queue, yielding fibre, '
     'sleeping fibre, alone and combined, with fibre_run/fibre_kill/main-context events between passes), one of 6 '
     'interrupt handlers (run_atomic of each fibre, event send, burst of 9 requests, two events) injected before every '
     'schedule point of fibre_scheduler_next, fibre_run, fibre_kill and the handler fibre\'s receive/release/wait; '
     'isr-nested: 6 handler pairs, the second nested before every point of the first; isr-random: up to 12 interrupts '
     'incl. nested at random points over random scripts; co: 1-4 free-running sender "threads" (ucontext coroutines, random and PCT schedules, a switch possible at every instrumented access) posting events and wake-ups against the main-context scheduler loop. Non-trivial = run in which an interrupt landed inside a '
     'scheduler pass, inside a fibre body, inside fibre_run/fibre_kill, or found the request queue full; distinct by '
     'placement / hash of the recorded event log.',
     ISR_STAGES(''),
     assumptions=['execution under the shim is serialised (sequentially consistent)',
                  'a wake-up counts as withdrawn if fibre_kill of that fibre returned after it was accepted',
                  'event order uses the weakest reading: only operations (claim..send) that wholly precede one another '
                  'are ordered; nested ones may arrive either way',
                  'bounded progress: idle within fibres + requests + timer rounds + 12 passes after the last interrupt'],
     exhaustive_note='sweep/nested stages: every placement of one interrupt and of a nested pair in the 10 scenarios',
     engine='E2', technique='runtime monitoring with schedule control: compiler-instrumented schedule points (private '
     '__tsan_* runtime), interrupt-injection sweeps (single, nested pairs) and random multi-interrupt runs; work-counter '
     'lost-wake-up oracle, unique-id event history, quiescence invariants',
     level_text='Exploration with fault enumeration of interrupt placements. The real fibre.c/messageq.c/list.c run '
     'under a private TSan runtime; interrupt handlers posting wake-ups and events are injected before every '
     'instrumented memory access of the scheduler and of the event-handling fibre in 10 scenarios (and nested pairs at '
     'every (p,q)), plus random runs; monitors check that every accepted wake-up is observed by its fibre, every '
     'accepted event is received exactly once intact and in order, and that the scheduler reaches a clean idle state.',
     level_note='Placements of more than two interrupts and other scenarios are sampled, not enumerated; real-thread '
     'delivery is covered under C07\'s workloads.')


# ----------------------------------------------------------------------- C07
RING = [R + 'ringbuf.c']
TSAN_ENV = {'TSAN_OPTIONS': 'halt_on_error=0:exitcode=0:log_path={bdir}/tsan:report_thread_leaks=1:history_size=4'}
THR_ALL = FIB + RING
THR_SRC = {'ring': THR_ALL, 'mq': THR_ALL, 'fibre': THR_ALL}


def thr_stage(name, mode, preset, cc='gcc', tiers=('quick', 'thorough'), nproc=2, cflags=()):
    quick_args = ['--extra', mode] + (['--cases', '1'] if 'fallback' in name else [])
    return Stage(name, ['harness/threads.c'], THR_SRC[mode], preset=preset, cc=cc, nproc=nproc, tiers=tiers, cflags=cflags,
                 args={'quick': quick_args, 'thorough': ['--extra', mode]},
                 env=TSAN_ENV if preset == 'tsan' else {}, post=tsan_post if preset == 'tsan' else None,
                 timeout={'quick': 600, 'thorough': 3600},
                 needs_min={'ring': {'ring_bytes_handed_over': 100000}, 'mq': {'mq_messages_handed_over': 10000},
                            'fibre': {'fibre_events_handed_over': 5000}}[mode])


prop('C07',
     'real pthreads on the three supported patterns, tiny structures so that every hand-off path (wrap, full, empty, '
     'refused claim) is taken thousands of times per run: SPSC ring (buf_len 2,3,4,5,7,17; put and putchar vs get and '
     'empty; random start index), MPSC queue (depth 1-4, 2-15 sender threads, plain payload writes and reads), and 2-8 '
     'threads posting fibre events and fibre_run_atomic wake-ups against the main-context scheduler loop (plain event '
     'payload). Built with the genuine ThreadSanitizer (gcc, once over <stdatomic.h> and once over the fallback macros of atomic.h with -D__STDC_NO_ATOMICS__; clang in the thorough tier); every report is a violation, '
     'de-duplicated by the innermost librfn frames. Each round is one evaluation; rounds differ in interleaving, so '
     'distinct = distinct (configuration, refusal-count) signatures observed; non-trivial = every round (all exercise '
     'cross-thread hand-offs).',
     [thr_stage('tsan-ring', 'ring', 'tsan'), thr_stage('tsan-mq', 'mq', 'tsan'), thr_stage('tsan-fibre', 'fibre', 'tsan'),
      # librfn's fallback atomics (include/librfn/atomic.h, used when the compiler lacks <stdatomic.h>)
      thr_stage('tsan-ring-fallback', 'ring', 'tsan', nproc=1, cflags=['-D__STDC_NO_ATOMICS__']),
      thr_stage('tsan-mq-fallback', 'mq', 'tsan', nproc=1, cflags=['-D__STDC_NO_ATOMICS__']),
      thr_stage('tsan-fibre-fallback', 'fibre', 'tsan', nproc=1, cflags=['-D__STDC_NO_ATOMICS__']),
      thr_stage('tsan-ring-clang', 'ring', 'tsan', cc='clang', tiers=('thorough',)),
      thr_stage('tsan-mq-clang', 'mq', 'tsan', cc='clang', tiers=('thorough',)),
      thr_stage('tsan-fibre-clang', 'fibre', 'tsan', cc='clang', tiers=('thorough',))],
     assumptions=['ThreadSanitizer computes happens-before from the memory order of every atomic actually executed; it '
                  'is the oracle, no monitor of ours second-guesses it',
                  'the step from race freedom to "C04-C06 carry over to weak hardware" is the C11 DRF-SC theorem, not '
                  'something observed',
                  'the harness adds no synchronisation between the parties (plain payload accesses, thread-local '
                  'counters until join, relaxed atomics for the work counters)'],
     engine='E3', technique='runtime monitoring: genuine ThreadSanitizer (happens-before race detection) over real-thread '
     'stress of the three supported patterns, reports collected from the TSan log',
     level_text='Exploration. Real threads hammer tiny rings and queues and post fibre wake-ups/events while the main '
     'thread schedules; the genuine ThreadSanitizer runtime builds happens-before from the memory-order argument of '
     'every atomic executed and reports any conflicting plain access that is not ordered. Held on the executions '
     'produced (millions of hand-offs per run), nothing more.',
     level_note='TSan keeps a bounded access history and sees only interleavings the 16 cores produce, hence tiny '
     'structures and repeated rounds. It does not explore weak-memory outcomes.')

# ----------------------------------------------------------------------- C05
prop('C05',
     'seq: random op strings (put, putchar when room is certain, get, empty; three fill biases) for every buf_len in '
     '{2..9,16,255,256,257,1000,65535,65536,65537} and every start index (large rings: also started within 40 of the wrap), exactly-sized heap storage; co: producer and consumer "threads" '
     '(4-44 bytes, put and putchar vs get and empty) for buf_len 2..5 and every start index under random '
     '(p=0.02/0.1/0.5) and PCT (d=1..3) schedules with a switch possible at every instrumented access; isr: 11 '
     'scenarios (empty / one byte / one free slot / full, across the wrap) x buf_len 2..5 x every start index with an '
     'interrupt of the opposite role doing 1-3 operations injected before every schedule point of put, putchar, get '
     'and empty; long (thorough tier only, ~2 min): 2^32+4096 bytes through rings of 3,5,6,7,9,10,11,12 bytes by put/get alone with 2 bytes always unread (anything counting bytes in 32 bits overflows with data in flight); thr: real producer/consumer threads on buf_len 2,3,4,5,7,17 under ASan+UBSan (the TSan twin is C07). '
     'Non-trivial = run containing a refused put and an empty get and a wrap of the indices; distinct by hash of the '
     'event log / schedule / placement.',
     [Stage('seq', ['harness/rb.c'], RING, preset='asan', nproc=16,
            args={'quick': ['--extra', 'seq'], 'thorough': ['--extra', 'seq']},
            needs_min={'histories_nontrivial': 10000, 'rings_initialised_over_a_used_descriptor': 1000}),
      Stage('isr', ['harness/rb.c'] + SHIM, RING, preset='shim', nproc=4, cflags=['-DRB_SHIM'],
            args={'quick': ['--extra', 'isr'], 'thorough': ['--extra', 'isr']},
            needs_min={'single_isr_placements': 3000}),
      Stage('co', ['harness/rb.c'] + SHIM, RING, preset='shim', nproc=16, cflags=['-DRB_SHIM'],
            args={'quick': ['--extra', 'co'], 'thorough': ['--extra', 'co']},
            needs_min={'schedules_nontrivial': 10000, 'bytes_handed_over': 100000}),
      Stage('long', ['harness/rb.c'], RING, preset='O2', nproc=8, tiers=('thorough',),
            args={'thorough': ['--extra', 'long']},
            needs_min={'bytes_through_the_ring': 1 << 32}, timeout={'quick': 1200, 'thorough': 3600}),
      Stage('thr-asan', ['harness/threads.c'], THR_ALL, preset='asan', nproc=2,
            args={'quick': ['--extra', 'ring'], 'thorough': ['--extra', 'ring']},
            needs_min={'ring_bytes_handed_over': 100000}, timeout={'quick': 600, 'thorough': 3600}),
      Stage('co-clang', ['harness/rb.c'] + SHIM, RING, preset='shim', cc='clang', nproc=16, cflags=['-DRB_SHIM'],
            tiers=('thorough',), args={'thorough': ['--extra', 'co', '--cases', '500000']})],
     assumptions=['execution under the shim is serialised (sequentially consistent); memory-order effects are C07',
                  'only ringbuf_put is used from interrupt context (ringbuf_putchar busy-waits by design)',
                  'a put may fail only if own successful puts minus gets known to have returned before its invocation '
                  '>= buf_len-1; symmetrically for get/empty (sound under-approximation of "at some instant during '
                  'the call")'],
     exhaustive_note='isr stage: every placement of one interrupt in the listed scenarios and geometries',
     engine='E1+E2+E3', technique='runtime monitoring: sequential model check under ASan; schedule control through '
     'compiler-instrumented schedule points (interrupt-injection sweep in both directions, random/PCT coroutine '
     'schedules) with guard zones; real threads under ASan; known-stream prefix oracle and boundary-failure oracles',
     level_text='Exploration with fault enumeration of interrupt placements. The real ringbuf.c runs sequentially for '
     'many lengths and start indices, under a private TSan runtime with an interrupt of the opposite role injected at '
     'every instrumented access and under tens of thousands of random and priority coroutine schedules, and with real '
     'threads; the consumed bytes must be exactly a prefix of the produced stream, refusals and empties must be '
     'justified by the counts observable at the call boundary, and no access may fall outside the storage.',
     level_note='Schedules are sampled for the free-preemption case; one interrupt per scenario in the sweep (two '
     'simultaneous producers or consumers are outside the supported pattern).')

# ----------------------------------------------------------------------- C15
CON = [R + 'console.c', R + 'ringbuf.c'] + FIB
prop('C15',
     'exh: every stream of length 7 (quick) / 9 (thorough) over {a, space, \', ", backspace, Ctrl-C, newline} that '
     'contains a newline, delivered with console_process; rand: streams of 1-5 lines with lengths clustered at 0, 1 and '
     '77..82, bare and quoted tokens (blanks and the other quote inside) separated by any of blank, tab, CR, VT, FF, edits (junk+backspaces, over- and '
     'under-erasing, Ctrl-C and retype), delivered in turn by console_process, console_putchar+scheduler (bursts <= 15) '
     'and console_eval, with commands that exit at once or yield 1-3 times; reg: 0-39 registrations in random order '
     'from a pool sorting on both sides of the built-ins, every name then looked up, unknown and near-miss names, the '
     'built-in echo. Non-trivial = stream with an edit character and a quote, or a line within 2 of the 79 limit, or a '
     'registration scenario that fills the table; distinct by content hash.',
     [Stage('exh', ['harness/console.c'], CON, preset='asan', nproc=16,
            args={'quick': ['--extra', 'exh'], 'thorough': ['--extra', 'exh']}, timeout={'quick': 900, 'thorough': 7200}),
      Stage('rand', ['harness/console.c'], CON, preset='asan', nproc=16,
            args={'quick': ['--extra', 'rand'], 'thorough': ['--extra', 'rand']},
            needs_min={'dispatches_compared_functionally': 50000, 'streams_with_line_near_the_79_limit': 10000, 'streams_with_cr_vt_ff_between_words': 10000,
                       'dispatches_compared_with_a_quote_inside_a_bare_word': 1000,
                       'eval_injections': 10000}),
      Stage('reg', ['harness/console.c'], CON, preset='asan', nproc=8,
            args={'quick': ['--extra', 'reg'], 'thorough': ['--extra', 'reg']},
            needs_min={'scenarios_filling_the_table': 100, 'lookups_checked': 5000}),
      Stage('rand-clang', ['harness/console.c'], CON, preset='asan', cc='clang', nproc=16, tiers=('thorough',),
            args={'thorough': ['--extra', 'rand', '--cases', '2000000']})],
     assumptions=['functional oracle only on the unambiguous domain: first character neither blank nor quote, tokens '
                  'separated by white space, each bare (a quote character inside a bare word is an ordinary character: arguments '
                  'are quoted as a whole and the line is split at white space only) or wholly and non-emptily quoted; with more '
                  'than four tokens argv[3] need only begin with the fourth token; after a line was completed by the '
                  'buffer filling, the next line is not predicted (the triggering character may or may not be kept)',
                  'console_putchar is fed in bursts that never overflow the 15-character ring (dropping is documented)',
                  'console_hwinit is supplied by the harness; console_posix.c is not linked',
                  'ILP32 layouts cannot be run in this sandbox'],
     exhaustive_note='exh stage: every stream of the stated length over the 7-symbol alphabet',
     engine='E1', technique='runtime monitoring: edited-line reference model with predicted argc/argv on the unambiguous '
     'domain, structural argv checks on all streams, three delivery paths, exactly-sized heap console under ASan+UBSan',
     level_text='Exploration. Enumerated and generated character streams are delivered through console_process, '
     'console_putchar+fibre and console_eval to the real console.c under ASan+UBSan; a capturing command records '
     'argc/argv (checked to lie inside the line buffer and be terminated there) and, for unambiguous lines, compares '
     'them with the model\'s tokens of the edited line; registration orders and counts beyond the table size are '
     'looked up name by name.',
     level_note='Outside the unambiguous domain only safety and structure are checked. LP64 only.')

# ----------------------------------------------------------------------- C08
import ptgen


def pt_stage(name, preset, cc, nfiles, per, tiers=('quick', 'thorough')):
    return Stage(name, ['harness/pt_driver.c'], [], preset=preset, cc=cc, nproc=8, tiers=tiers,
                 pregen=ptgen.pregen(nfiles, per), needs_min={'programs_run': nfiles * per * 9 // 10, 'invocations': 1000,
                            'programs_with_unbraced_spawn_as_loop_or_if_body': nfiles * per // 40, 'long_children_run': 159},
                 timeout={'quick': 600, 'thorough': 3600})


prop('C08',
     'generated protothread programs (6-40 statements: effects, assignments to persistent variables, if/else, bounded '
     'for loops over persistent counters nested to depth 3, PT_YIELD, PT_WAIT, PT_WAIT_UNTIL with a counted side '
     'effect, PT_EXIT(_ON), PT_FAIL(_ON), PT_SPAWN, PT_SPAWN_AND_CHECK, PT_CALL, PT_CHILD_OK; children to depth 3), each '
     'rendered as C over the real protothreads.h and executed by a Python-generator interpreter for the expected '
     'trace; every program is invoked to completion twice (PT_INIT in between) and the return code and side effects of '
     'every invocation compared; loop and if bodies that are a single PT_ macro are written without braces two times '
     'in three, conditions are unparenthesised expressions with truth values other than 1. Non-trivial = program with a '
     'blocking point inside a loop inside a conditional, a spawn inside a loop, a failing child or an unbraced macro '
     'body; programs are distinct by construction (id), counted. A fixed family adds children that block N times '
     '(N = 0..300000 at and around powers of two, 1000, 10000, 65536, 100000; yielding, waiting, alternating) under '
     'PT_CALL (one invocation must run them to completion) and under PT_SPAWN (every block relayed unchanged).',
     [pt_stage('gcc-O1', 'asan', 'gcc', 8, 100),
      pt_stage('clang-O1', 'asan', 'clang', 4, 100),
      pt_stage('gcc-O2-more', 'asan-O2', 'gcc', 16, 400, tiers=('thorough',)),
      pt_stage('gcc-O0-more', 'asan-O0', 'gcc', 16, 400, tiers=('thorough',)),
      pt_stage('clang-O2-more', 'asan-O2', 'clang', 16, 400, tiers=('thorough',))],
     assumptions=['Python generator semantics are "a sequential program cut at its blocking points" (the reference)',
                  'scope of the statement: one PT_* blocking macro per source line, none inside a nested switch, '
                  'PT_CHILD_OK consulted before the next blocking point, re-invocation after exit only after PT_INIT; '
                  'PT_CALL runs the child to completion within one invocation of the parent'],
     engine='E1', technique='runtime monitoring over generated programs: differential execution of the real PT_* macros '
     'against a generator-based reference semantics, trace oracle per invocation, ASan+UBSan, two compilers and three '
     'optimisation levels',
     level_text='Exploration over programs. Hundreds (quick) to tens of thousands (thorough) of generated protothread '
     'bodies are compiled against the real protothreads.h with gcc and clang, run under ASan+UBSan, and the return code '
     'and side effects of every invocation are compared with the trace obtained by running the same abstract program '
     'as Python generators.',
     level_note='A sample of the program space; only what the grammar can express (no local variables across blocking '
     'points, no nested switch).')

# ---------------------------------------------- console_putchar from interrupt context (C06, C15)
CON_ISR = [
    Stage('console-isr-sweep', ['harness/console_isr.c'] + SHIM, CON, preset='shim', nproc=8,
          args={'quick': ['--extra', 'sweep'], 'thorough': ['--extra', 'sweep']},
          needs_min={'newline_placements': 500}),
    Stage('console-isr-random', ['harness/console_isr.c'] + SHIM, CON, preset='shim', nproc=16,
          args={'quick': ['--extra', 'random'], 'thorough': ['--extra', 'random']},
          needs_min={'characters_fed_inside_a_scheduler_pass': 10000, 'lines_dispatched_and_compared': 10000}),
    Stage('console-thread-co', ['harness/console_isr.c'] + SHIM, CON, preset='shim', nproc=16,
          args={'quick': ['--extra', 'co'], 'thorough': ['--extra', 'co']},
          needs_min={'coroutine_schedules': 2000, 'characters_fed_by_thread': 10000}),
]
for _pid in ('C06', 'C15'):
    PROPS[_pid]['stages'] += CON_ISR
    PROPS[_pid]['rule'] += (' console-isr-*: console_putchar called from an injected interrupt - the line-completing '
                            'newline before every schedule point of a three-pass window (3 lines x 3 scheduler states), '
                            'and whole streams of 1-8 lines fed by randomly placed interrupts (never nested: the ring has one producer) in bursts '
                            'of <= 15, and by a free-running input "thread" (coroutine, random/PCT schedules, one line outstanding); oracle: every complete line dispatched exactly once, in order, with its arguments.')

# real-thread legs under ASan+UBSan (the TSan twins are C07's stages); thorough tier only
PROPS['C04']['stages'].append(thr_stage('thr-asan', 'mq', 'asan', tiers=('thorough',)))
PROPS['C06']['stages'].append(thr_stage('thr-asan', 'fibre', 'asan', tiers=('thorough',)))
# the same real-thread rounds under the genuine ThreadSanitizer: C04-C06 speak of threads on a multiprocessor, and a
# weakened memory order is invisible to every sequentially consistent interleaving the E2 stages explore
PROPS['C04']['stages'].append(thr_stage('thr-tsan', 'mq', 'tsan', nproc=1))
PROPS['C05']['stages'].append(thr_stage('thr-tsan', 'ring', 'tsan', nproc=1))
PROPS['C06']['stages'].append(thr_stage('thr-tsan', 'fibre', 'tsan', nproc=1))


# C01: order of arrival of interrupt-context requests when the drain loop itself is interrupted (engine E2)
PROPS['C01']['stages'] += [st for st in ISR_STAGES(':c01')]
for _st in PROPS['C01']['stages']:
    if _st.name.startswith('isr-') or _st.name == 'co':
        _st.needs_min = dict(_st.needs_min, ordered_request_pairs_checked=1000) if _st.name != 'isr-sweep' else _st.needs_min
PROPS['C01']['rule'] += (' isr-*/co: the C06 scenario family plus two plain waiter fibres; interrupt handlers (9 kinds, incl. '
                         'bursts that fill the 8-slot request queue) injected before every schedule point, nested pairs, '
                         'random runs and free-running sender coroutines; oracle: of two requests whose calls did not '
                         'overlap, for different fibres, the later one for a fibre with no other reason to run, the '
                         'earlier one is served first (order of arrival), and no accepted request is lost.')
PROPS['C01']['engine'] = 'E1+E2'


# engine E4: real asynchronous (nested) signals against the scheduler, ASan+UBSan build
PROPS['C06']['stages'].append(
    Stage('signals-asan', ['harness/threads.c'], THR_ALL, preset='asan', nproc=2, libs=['-lrt'],
          args={'quick': ['--extra', 'signal', '--cases', '1'], 'thorough': ['--extra', 'signal', '--cases', '3']},
          needs_min={'signal_events_handed_over': 4000, 'signals_delivered': 4000},
          timeout={'quick': 600, 'thorough': 3600}))
PROPS['C06']['rule'] += (' signals-asan (engine E4): two POSIX interval timers deliver SIGUSR1/SIGUSR2 at pseudo-random '
                         '15-265 us intervals to the thread running the scheduler, the handlers nest and post events '
                         'and wake-ups (instruction-granular preemption); same quiescence oracle.')
PROPS['C06']['engine'] = 'E2+E3+E4'


# valgrind memcheck over the decoder and helpers (branch on uninitialised data is invisible to ASan); thorough only
PROPS['C14']['stages'].append(
    Stage('memcheck', ['harness/wav.c'], WAV, preset='plain', nproc=8, tiers=('thorough',),
          wrapper=['valgrind', '-q', '--error-exitcode=0', '--log-file={bdir}/memcheck.{i}', '--track-origins=no'],
          args={'thorough': ['--extra', 'fuzz', '--cases', '24000']}, post=memcheck_post, env={'VH_NO_PREFILL': '1'},
          needs_min={'decodes_judged': 20000}, timeout={'thorough': 3600}))
PROPS['C14']['stages'].append(
    Stage('memcheck-quick', ['harness/wav.c'], WAV, preset='plain', nproc=8, tiers=('quick',),
          wrapper=['valgrind', '-q', '--error-exitcode=0', '--log-file={bdir}/memcheck.{i}', '--track-origins=no'],
          args={'quick': ['--extra', 'fuzz', '--cases', '2400']}, post=memcheck_post, env={'VH_NO_PREFILL': '1'},
          needs_min={'decodes_judged': 2000}, timeout={'quick': 900}))
PROPS['C14']['rule'] += (' memcheck-quick: 2400 such cases in the quick tier.')
PROPS['C14']['rule'] += (' memcheck (thorough): 24000 of the same fuzz cases under valgrind memcheck on a non-ASan build '
                         '(use of uninitialised values in the decoder and helper functions).')


# ---- level texts brought up to date with the stages added later
PROPS['C01']['level_text'] += (' Under engine E2 the same scheduler runs with interrupt handlers injected before every '
                               'instrumented memory access (single, nested pairs, random) and with free-running sender '
                               'coroutines; an arrival-order oracle checks that non-overlapping requests for different '
                               'fibres are served in the order they arrived and that none is lost.')
PROPS['C01']['technique'] = ('runtime monitoring: lock-step reference scheduler model over generated and enumerated '
                             'histories (ASan+UBSan); interrupt-injection sweeps and coroutine schedules through '
                             'compiler-instrumented schedule points with an arrival-order oracle')
PROPS['C06']['level_text'] += (' Further stages: console_putchar from injected interrupts and from a free-running input '
                               'coroutine (every completed line dispatched exactly once), free-running sender coroutines, '
                               'and real nested POSIX timer signals interrupting the scheduler thread under ASan+UBSan.')
PROPS['C06']['technique'] += '; real nested signals (E4); real threads under ASan (thorough)'
PROPS['C15']['level_text'] += (' console_putchar is additionally driven from injected interrupts at every schedule point of '
                               'a three-pass window and from a free-running input coroutine (engine E2).')
PROPS['C15']['engine'] = 'E1+E2'
PROPS['C05']['level_text'] += (' The thorough tier also pushes 2^32+4096 bytes through small non-power-of-two rings.')
PROPS['C14']['level_text'] += (' The thorough tier repeats 24000 cases under valgrind memcheck on a non-ASan build.')
PROPS['C07']['level_text'] += (' The same rounds also run over the fallback atomics of include/librfn/atomic.h '
                               '(-D__STDC_NO_ATOMICS__).')

# real-thread TSan legs of C04-C06 (added after seed C04-e-1: a relaxed publishing operation)
for _pid, _what in (('C04', 'many-sender/one-receiver rounds'), ('C05', 'producer/consumer rounds'), ('C06', 'event and wake-up rounds')):
    PROPS[_pid]['rule'] += (' thr-tsan (engine E3): the real-thread %s of harness/threads.c under the genuine ThreadSanitizer; '
                            'every report is a violation.' % _what)
    PROPS[_pid]['level_text'] += (' A real-thread stage under ThreadSanitizer covers what sequentially consistent '
                                  'interleavings cannot show: a weakened memory order on a publishing operation.')
    if 'E3' not in PROPS[_pid]['engine']:
        PROPS[_pid]['engine'] += '+E3'
    PROPS[_pid]['technique'] += '; real threads under ThreadSanitizer'

"""Driver for the librfn runtime monitors.

./check <ID> [--tier quick|thorough] [--seed N] [--replay PATH] [--repo DIR]

Builds the stages of a property's check from $LIBRFN_REPO (default /repo)
working tree, runs the harness processes, merges their result files, matches
violations against known_findings.txt, writes evidence/<ID>.json.

Exit: 0 held on everything observed / 1 violation (VIOLATION line printed) /
2 inconclusive (build failure, watchdog, monitors observed too little).
"""
import array
import fnmatch
import json
import os
import shutil
import signal
import subprocess
import sys
import time

VERIF = os.path.dirname(os.path.dirname(os.path.abspath(__file__)))
NCPU = os.cpu_count() or 4

COMMON = ['-std=gnu11', '-DLIBRFN_VERIF', '-D_GNU_SOURCE', '-Wall', '-Wno-unused',
          '-Wno-unused-function', '-Wno-unknown-pragmas']
SAN_ASAN = ['-O1', '-g', '-fno-omit-frame-pointer', '-fsanitize=address,undefined',
            '-fno-sanitize=pointer-overflow,shift-base', '-fno-sanitize-recover=all']
PRESETS = {
    # (flags for repo objects, flags for harness objects, link flags)
    'asan': (SAN_ASAN, SAN_ASAN, SAN_ASAN),
    'asan-O2': ([f if f != '-O1' else '-O2' for f in SAN_ASAN],) * 3,
    'asan-O0': ([f if f != '-O1' else '-O0' for f in SAN_ASAN],) * 3,
    # ubsan without signed-integer-overflow (wav byte rates >= 2^31: DESIGN 2.3)
    'asan-nosio': (SAN_ASAN + ['-fno-sanitize=signed-integer-overflow'],) * 3,
    'O2': (['-O2', '-g'], ['-O2', '-g'], []),
    'O0': (['-O0', '-g'], ['-O0', '-g'], []),
    'plain': (['-O1', '-g'], ['-O1', '-g'], []),
    'tsan': (['-O1', '-g', '-fsanitize=thread'], ['-O1', '-g', '-fsanitize=thread'],
             ['-fsanitize=thread']),
    # librfn instrumented for TSan but linked against our own runtime (rt/shim.c)
    'shim': (['-O1', '-g', '-fsanitize=thread'], ['-O1', '-g'], []),
    'cov': (['-O0', '-g', '--coverage'], ['-O0', '-g'], ['--coverage']),
}

RUN_ENV = {
    'ASAN_OPTIONS': 'abort_on_error=1:detect_leaks=0:handle_abort=0:handle_segv=0:'
                    'handle_sigfpe=0:handle_sigbus=0:handle_sigill=0:allocator_may_return_null=1',
    'UBSAN_OPTIONS': 'print_stacktrace=1:abort_on_error=1:halt_on_error=1',
}


class Stage:
    def __init__(self, name, harness, repo=(), preset='asan', cc='gcc', nproc=1,
                 args=None, timeout=None, cflags=(), libs=(), pregen=None, tiers=('quick', 'thorough'),
                 env=None, post=None, serial=False, needs_min=None, wrapper=None):
        self.name = name
        self.harness = list(harness)
        self.repo = list(repo)
        self.preset = preset
        self.cc = cc
        self.nproc = nproc            # int or {'quick':..,'thorough':..}
        self.args = args or {}        # {'quick': [...], 'thorough': [...]}
        self.timeout = timeout or {'quick': 300, 'thorough': 3600}
        self.cflags = list(cflags)
        self.libs = list(libs)
        self.pregen = pregen          # callable(ctx, builddir) -> extra harness files
        self.tiers = tiers
        self.env = env or {}
        self.post = post              # callable(ctx, stage, results, builddir) -> extra violations/stats
        self.serial = serial          # run procs one after another (timing sensitive)
        self.needs_min = needs_min or {}  # stat name -> minimum (else inconclusive)
        self.wrapper = wrapper        # e.g. ['valgrind', ...]; '{bdir}' and '{i}' are substituted


class Ctx:
    def __init__(self, pid, tier, seed, repo):
        self.pid = pid
        self.tier = tier
        self.seed = seed
        self.repo = repo
        self.build = os.path.join(VERIF, 'build', pid)
        self.log = []

    def say(self, *a):
        print(*a, flush=True)


def run(cmd, **kw):
    return subprocess.run(cmd, stdout=subprocess.PIPE, stderr=subprocess.STDOUT, text=True, **kw)


def build_stage(ctx, st):
    bdir = os.path.join(ctx.build, st.name)
    shutil.rmtree(bdir, ignore_errors=True)
    os.makedirs(bdir)
    rflags, hflags, lflags = PRESETS[st.preset]
    inc = ['-I' + os.path.join(ctx.repo, 'include'), '-I' + os.path.join(VERIF, 'rt'),
           '-I' + os.path.join(VERIF, 'models'), '-I' + os.path.join(VERIF, 'harness'), '-I' + bdir]
    jobs = []
    objs = []
    harness = list(st.harness)
    if st.pregen:
        harness += st.pregen(ctx, bdir) or []
    for i, src in enumerate(st.repo):
        path = os.path.join(ctx.repo, src)
        obj = os.path.join(bdir, 'r%d_%s.o' % (i, os.path.basename(src)[:-2]))
        jobs.append(([st.cc] + COMMON + rflags + list(st.cflags) + inc + ['-c', path, '-o', obj], obj))
    for i, src in enumerate(harness):
        path = src if os.path.isabs(src) else os.path.join(VERIF, src)
        obj = os.path.join(bdir, 'h%d_%s.o' % (i, os.path.basename(src).rsplit('.', 1)[0]))
        jobs.append(([st.cc] + COMMON + hflags + list(st.cflags) + inc + ['-c', path, '-o', obj], obj))
    procs = []
    for cmd, obj in jobs:
        procs.append((cmd, obj, subprocess.Popen(cmd, stdout=subprocess.PIPE, stderr=subprocess.STDOUT, text=True)))
    for cmd, obj, p in procs:
        out, _ = p.communicate()
        if p.returncode != 0:
            ctx.say('BUILD-FAILED stage=%s\n%s\n%s' % (st.name, ' '.join(cmd), out))
            return None
        objs.append(obj)
    exe = os.path.join(bdir, 'harness')
    cmd = [st.cc] + lflags + objs + ['-o', exe, '-lm', '-lpthread'] + list(st.libs)
    r = run(cmd)
    if r.returncode != 0:
        ctx.say('LINK-FAILED stage=%s\n%s\n%s' % (st.name, ' '.join(cmd), r.stdout))
        return None
    return exe


def tierval(v, tier):
    if isinstance(v, dict):
        return v.get(tier, v.get('quick'))
    return v


def run_stage(ctx, st, exe, extra_args=None, nproc_override=None):
    """returns (results list, problems list)"""
    bdir = os.path.dirname(exe)
    nproc = nproc_override or tierval(st.nproc, ctx.tier)
    nproc = max(1, min(nproc, 64))
    timeout = tierval(st.timeout, ctx.tier)
    args = list(tierval(st.args, ctx.tier) or [])
    env = dict(os.environ)
    env.update(RUN_ENV)
    env.update({k: v.replace('{bdir}', bdir) for k, v in st.env.items()})
    running = []
    pending = list(range(nproc))
    results, problems = [], []
    maxpar = 1 if st.serial else NCPU
    t0 = time.time()

    def launch(i):
        out = os.path.join(bdir, 'res%d.json' % i)
        for p in (out, out + '.sig'):
            if os.path.exists(p):
                os.unlink(p)
        cmd = [exe, '--seed', str(ctx.seed), '--tier', ctx.tier, '--proc', '%d/%d' % (i, nproc),
               '--out', out] + args + list(extra_args or [])
        if st.wrapper:
            cmd = [w.replace('{bdir}', bdir).replace('{i}', str(i)) for w in st.wrapper] + cmd
        logf = open(os.path.join(bdir, 'log%d.txt' % i), 'w')
        p = subprocess.Popen(cmd, stdout=logf, stderr=subprocess.STDOUT, env=env, cwd=bdir,
                             preexec_fn=os.setsid)
        running.append((i, p, out, logf, time.time(), cmd))

    try:
      while pending or running:
        while pending and len(running) < maxpar:
            launch(pending.pop(0))
        time.sleep(0.02)
        for ent in list(running):
            i, p, out, logf, ts, cmd = ent
            rc = p.poll()
            if rc is None:
                if time.time() - ts > timeout:
                    try:
                        os.killpg(p.pid, signal.SIGKILL)
                    except ProcessLookupError:
                        pass
                    p.wait()
                    running.remove(ent)
                    logf.close()
                    problems.append('watchdog: stage %s proc %d exceeded %ds (inconclusive)' % (st.name, i, timeout))
                continue
            running.remove(ent)
            logf.close()
            res = None
            if os.path.exists(out):
                try:
                    res = json.load(open(out))
                except Exception as e:  # truncated file
                    problems.append('stage %s proc %d: unreadable result (%s)' % (st.name, i, e))
            if res is None:
                tail = open(os.path.join(bdir, 'log%d.txt' % i), errors='replace').read()[-3000:]
                problems.append('stage %s proc %d: exit %s without result file\n%s' % (st.name, i, rc, tail))
                continue
            res['_rc'] = rc
            res['_log'] = os.path.join(bdir, 'log%d.txt' % i)
            res['_sig'] = out + '.sig'
            res['_cmd'] = cmd
            if rc not in (0, 3):
                problems.append('stage %s proc %d: exit code %s' % (st.name, i, rc))
            results.append(res)
    finally:
        for ent in running:
            try:
                os.killpg(ent[1].pid, signal.SIGKILL)
            except Exception:
                pass
    return results, problems


def load_findings():
    known, fixed = [], []
    path = os.path.join(VERIF, 'known_findings.txt')
    if not os.path.exists(path):
        return known, fixed
    for line in open(path):
        line = line.strip()
        if not line or line.startswith('#'):
            continue
        if line.startswith('known:'):
            rest = line[len('known:'):].strip()
            parts = rest.split(None, 2)
            d = {}
            for p in parts[:2]:
                if '=' in p:
                    k, v = p.split('=', 1)
                    d[k] = v
            d['what'] = parts[2] if len(parts) > 2 else ''
            known.append(d)
        elif line.startswith('fixed:'):
            fixed.append(line)
    return known, fixed


def merge_distinct(results):
    s = set()
    capped = False
    for r in results:
        capped = capped or bool(r.get('distinct_capped'))
        p = r.get('_sig')
        if p and os.path.exists(p):
            a = array.array('Q')
            with open(p, 'rb') as f:
                data = f.read()
            a.frombytes(data[:len(data) // 8 * 8])
            s.update(a)
            if len(s) > 6_000_000:
                capped = True
                break
    return len(s), capped


def do_check(prop, tier, seed, repo, replay=None):
    pid = prop['id']
    ctx = Ctx(pid, tier, seed, repo)
    t0 = time.time()
    os.makedirs(os.path.join(VERIF, 'evidence'), exist_ok=True)
    os.makedirs(os.path.join(VERIF, 'replays'), exist_ok=True)
    shutil.rmtree(ctx.build, ignore_errors=True)
    os.makedirs(ctx.build)
    evpath = os.path.join(VERIF, 'evidence', pid + '.json')

    stages = [s for s in prop['stages'] if tier in s.tiers]
    replay_rec = None
    if replay:
        replay_rec = json.load(open(replay))
        stages = [s for s in prop['stages'] if s.name == replay_rec['stage']]
        ctx.seed = seed = replay_rec['seed']
        ctx.tier = tier = replay_rec['tier']

    all_results = {}
    problems = []
    stage_info = []
    for st in stages:
        ts = time.time()
        exe = build_stage(ctx, st)
        if not exe:
            problems.append('build failed: ' + st.name)
            continue
        extra = None
        nprocs = None
        if replay_rec:
            extra = replay_rec['replay_args'].split()
            nprocs = 1
        res, probs = run_stage(ctx, st, exe, extra, nprocs)
        if replay_rec and replay_rec.get('proc') is not None:
            pass
        problems += probs
        if st.post:
            try:
                st.post(ctx, st, res, os.path.dirname(exe), problems)
            except Exception as e:
                problems.append('post-processing of stage %s failed: %r' % (st.name, e))
        all_results[st.name] = res
        stage_info.append({'stage': st.name, 'preset': st.preset, 'cc': st.cc,
                           'processes': len(res), 'wall_s': round(time.time() - ts, 2)})
        # VERIF_FAIL_FAST=1 (used when running the catalogue of seeded changes): a stage that has produced a witness
        # decides the run; the remaining stages are skipped (real-thread stages over a broken library can sit until
        # their time limit).  Never set for the registered commands.
        if os.environ.get('VERIF_FAIL_FAST') and any(
                any(not v.get('key', '').startswith('hang:') for v in r.get('violations', [])) for r in res):
            break

    # ---- merge
    evaluations = 0
    stats = {}
    samples = []
    violations = []
    exhaustive_flags = []
    notes = []
    flat = []
    for st in stages:
        for r in all_results.get(st.name, []):
            flat.append(r)
            evaluations += r.get('evaluations', 0)
            for k, (v, is_max) in r.get('stats', {}).items():
                kk = k
                if is_max:
                    stats[kk] = max(stats.get(kk, 0), v)
                else:
                    stats[kk] = stats.get(kk, 0) + v
            for s in r.get('samples', []):
                if len([x for x in samples if x['stage'] == st.name]) < 3:
                    samples.append({'stage': st.name, 'case': s})
            for v in r.get('violations', []):
                v = dict(v)
                v['stage'] = st.name
                v['proc'] = r.get('proc')
                v['log'] = r.get('_log')
                violations.append(v)
            exhaustive_flags.append(bool(r.get('exhaustive')))
            if r.get('note') and r['note'] not in notes:
                notes.append(r['note'])
            if r.get('distinct2'):
                stats['distinct_secondary_signatures(per-process max)'] = max(
                    stats.get('distinct_secondary_signatures(per-process max)', 0), r['distinct2'])
    # ---- hang witnesses: re-run exactly that case once with 4x the per-case budget (DESIGN 2.7)
    confirmed = []
    hang_verdict = None   # decided on the first hang witness only; the others share its fate
    for v in violations:
        if not v['key'].startswith('hang:') or replay_rec:
            confirmed.append(v)
            continue
        if hang_verdict is not None:
            if hang_verdict and sum(1 for c in confirmed if c['key'].startswith('hang:')) < 3:
                confirmed.append(v)
            continue
        st = [s for s in stages if s.name == v['stage']][0]
        exe = os.path.join(ctx.build, st.name, 'harness')
        old_env = dict(st.env)
        st.env = dict(st.env, VH_CASE_TIMEOUT='120')
        old_to = st.timeout
        st.timeout = {'quick': 200, 'thorough': 200}
        res2, probs2 = run_stage(ctx, st, exe, v.get('replay', '').split(), 1) if v.get('replay') else ([], ['no replay args'])
        st.env, st.timeout = old_env, old_to
        again = any(x['key'] == v['key'] for r in res2 for x in r.get('violations', []))
        hang_verdict = again
        if again:
            v['detail'] += ' [re-run of this single case with 4x budget hung again]'
            confirmed.append(v)
        else:
            problems.append('case %s exceeded its time budget once but not on re-run (inconclusive)' % v['key'])
    violations = confirmed
    distinct, capped = merge_distinct(flat)
    distinct += stats.pop('__distinct_exact', 0)

    # minimum-observation rule
    for st in stages:
        for k, minimum in st.needs_min.items():
            m = tierval(minimum, tier)
            if not replay_rec and stats.get(k, 0) < m:
                problems.append('monitor observed too little: %s=%d < %d (stage %s)' % (k, stats.get(k, 0), m, st.name))

    # ---- violations vs known findings
    known, fixed = load_findings()
    new_viol = []
    known_hits = []
    seen_keys = set()
    for v in violations:
        if v['key'] in seen_keys:
            continue
        seen_keys.add(v['key'])
        hit = None
        for k in known:
            if k.get('property') == pid and fnmatch.fnmatchcase(v['key'], k.get('key', '')):
                hit = k
                break
        if hit:
            known_hits.append((hit, v))
        else:
            new_viol.append(v)

    printed = set()
    for hit, v in known_hits:
        line = 'KNOWN-FINDING: property=%s %s' % (pid, hit['what'])
        if line not in printed:
            print(line)
            printed.add(line)

    replay_paths = []
    for n, v in enumerate(new_viol[:8]):
        rp = os.path.join(VERIF, 'replays', '%s-%d-%d.json' % (pid, seed, n))
        rec = {'property': pid, 'stage': v['stage'], 'seed': seed, 'tier': tier, 'proc': v.get('proc'),
               'key': v['key'], 'detail': v['detail'], 'replay_args': v.get('replay', ''),
               'log_tail': ''}
        try:
            if v.get('log') and os.path.exists(v['log']):
                rec['log_tail'] = open(v['log'], errors='replace').read()[-6000:]
        except OSError:
            pass
        if not replay_rec:
            json.dump(rec, open(rp, 'w'), indent=1)
        else:
            rp = replay
        replay_paths.append(rp)
        print('VIOLATION property=%s replay=%s' % (pid, rp))
        print('  key: %s' % v['key'])
        print('  %s' % v['detail'][:1500])

    wall = time.time() - t0
    cov = {
        'evaluations': int(evaluations),
        'distinct_nontrivial': int(distinct),
        'rule': prop['rule'] + (' [distinct count is a lower bound: signature set capped]' if capped else ''),
        'samples': samples if samples else ['(no sample recorded)'],
        'exhaustive': bool(prop.get('exhaustive_claim')) and not problems and not new_viol and (
            (lambda rs: bool(rs) and all(r.get('exhaustive') for r in rs))(
                [r for r in all_results.get(prop.get('exhaustive_stage', ''), []) if r.get('proc') is not None])
            if prop.get('exhaustive_stage') else (bool(exhaustive_flags) and all(exhaustive_flags))),
        'stages': stage_info,
        'counters': stats,
        'sanitizer_reports': sum(1 for v in violations if v['key'].startswith('crash-')),
        'known_findings_matched': len(known_hits),
        'inconclusive_reasons': problems,
    }
    if prop.get('exhaustive_note'):
        cov['exhaustive_scope'] = prop['exhaustive_note']
    if notes:
        cov['notes'] = notes
    ev = {
        'property_id': pid, 'tier': tier, 'seed': int(seed), 'level': 'exploration',
        'coverage': cov, 'assumptions': prop.get('assumptions', []),
        'wall_s': round(wall, 2), 'violations': len(new_viol),
    }
    if not replay_rec:
        tmp = evpath + '.tmp'
        json.dump(ev, open(tmp, 'w'), indent=1)
        os.replace(tmp, evpath)

    verdict = 0
    if new_viol:
        verdict = 1
    elif problems:
        verdict = 2
    print('%s tier=%s seed=%d: %s; evaluations=%d distinct_nontrivial=%d wall=%.1fs' % (
        pid, tier, seed,
        'VIOLATED' if verdict == 1 else ('INCONCLUSIVE' if verdict == 2 else 'held on what was observed'),
        evaluations, distinct, wall))
    for p in problems:
        print('INCONCLUSIVE-REASON: ' + p[:3000])
    keys = sorted(stats)
    for k in keys[:60]:
        print('  %-48s %d' % (k, stats[k]))
    return verdict


def _term(signum, frame):
    raise KeyboardInterrupt()


def main(argv, props):
    import argparse
    signal.signal(signal.SIGTERM, _term)
    signal.signal(signal.SIGHUP, _term)
    signal.signal(signal.SIGPIPE, _term)
    ap = argparse.ArgumentParser()
    ap.add_argument('id')
    ap.add_argument('--tier', default=os.environ.get('VERIF_TIER', 'quick'))
    ap.add_argument('--seed', type=int, default=None)
    ap.add_argument('--replay')
    ap.add_argument('--repo', default=os.environ.get('LIBRFN_REPO', '/repo'))
    a = ap.parse_args(argv)
    seed = a.seed
    if seed is None:
        try:
            seed = int(os.environ.get('VERIF_SEED', '1'))
        except ValueError:
            seed = 1
    if a.tier not in ('quick', 'thorough'):
        a.tier = 'quick'
    if a.id not in props:
        print('unknown property', a.id)
        return 2
    return do_check(props[a.id], a.tier, seed, a.repo, a.replay)


# ---------------------------------------------------------------- ThreadSanitizer log post-processing
import glob
import re

_FRAME = re.compile(r'#\d+ (\S+) (\S+?):(\d+)')


def tsan_post(ctx, st, res, bdir, problems):
    """Collect genuine ThreadSanitizer reports written to {bdir}/tsan.* and turn each distinct one into a violation.
    Reports are de-duplicated by the pair of innermost librfn frames (function names), per DESIGN 2.2 (E3)."""
    reports = {}
    nblocks = 0
    for path in sorted(glob.glob(os.path.join(bdir, 'tsan.*'))):
        text = open(path, errors='replace').read()
        for block in text.split('==================')[0:]:
            m = re.search(r'WARNING: ThreadSanitizer: ([^\n(]+)', block)
            if not m:
                continue
            nblocks += 1
            kind = m.group(1).strip().replace(' ', '-')
            # stacks are separated by blank lines; take the innermost librfn frame of each stack
            funcs = []
            for stack in re.split(r'\n\s*\n', block):
                for fm in _FRAME.finditer(stack):
                    fn, f, line = fm.group(1), fm.group(2), fm.group(3)
                    if '/librfn/' in f or '/include/librfn' in f:
                        funcs.append('%s(%s)' % (fn, os.path.basename(f)))
                        break
            if not funcs:
                # the racing accesses are in the harness (payload handed over through librfn): name those frames
                for stack in re.split(r'\n\s*\n', block):
                    fm = re.search(r'#0 (\S+) (\S+?):(\d+)', stack)
                    if fm and 'harness' in fm.group(2):
                        funcs.append('payload-access-in-%s' % fm.group(1))
            funcs = sorted(set(funcs))[:3] or ['(no librfn frame)']
            key = 'tsan:%s:%s' % (kind, '+'.join(funcs))
            if key not in reports:
                reports[key] = block.strip()[:1800]
    viols = [{'key': k, 'replay': ' '.join(tierval(st.args, ctx.tier) or []),
              'detail': 'ThreadSanitizer report (first of its kind):\n' + v} for k, v in sorted(reports.items())]
    res.append({'stage': st.name, 'proc': None, 'evaluations': 0, 'stats': {'tsan_report_blocks': [nblocks, 0],
                                                                             'tsan_distinct_reports': [len(reports), 0]},
                'samples': [], 'violations': viols, 'violations_total': len(viols), 'exhaustive': False, 'note': '',
                '_log': None, '_sig': None})


def memcheck_post(ctx, st, res, bdir, problems):
    """valgrind memcheck logs ({bdir}/memcheck.<i>): every distinct error kind + innermost librfn frame is a violation."""
    reports = {}
    nerr = 0
    for path in sorted(glob.glob(os.path.join(bdir, 'memcheck.*'))):
        text = open(path, errors='replace').read()
        for block in re.split(r'\n==\d+== \n', text):
            m = re.search(r'==\d+== (Conditional jump or move depends on uninitialised value|Use of uninitialised value[^\n]*|'
                          r'Invalid (?:read|write)[^\n]*|Syscall param[^\n]*uninitialised[^\n]*)', block)
            if not m:
                continue
            nerr += 1
            fn = '(no librfn frame)'
            for fm in re.finditer(r'(?:at|by) 0x[0-9A-Fa-f]+: (\S+) \((\S+?):(\d+)\)', block):
                if fm.group(2) in ('wavheader.c', 'pack.c', 'string.c', 'util.c'):
                    fn = '%s(%s)' % (fm.group(1), fm.group(2))
                    break
            key = 'memcheck:%s:%s' % (m.group(1).split('(')[0].strip().replace(' ', '-')[:60], fn)
            reports.setdefault(key, block.strip()[:1500])
    viols = [{'key': k, 'replay': ' '.join(tierval(st.args, ctx.tier) or []), 'detail': 'valgrind memcheck report:\n' + v}
             for k, v in sorted(reports.items())]
    res.append({'stage': st.name, 'proc': None, 'evaluations': 0,
                'stats': {'memcheck_error_blocks': [nerr, 0]}, 'samples': [], 'violations': viols,
                'violations_total': len(viols), 'exhaustive': False, 'note': '', '_log': None, '_sig': None})

#!/usr/bin/env python3
"""Regenerate MANIFEST.json from lib/props.py (claimed checks) - run after editing props."""
import json, os, sys
sys.dont_write_bytecode = True
sys.path.insert(0, os.path.dirname(os.path.abspath(__file__)))
import props

VERIF = os.path.dirname(os.path.dirname(os.path.abspath(__file__)))
ids = [json.loads(l)['id'] for l in open(os.path.join(VERIF, 'properties.jsonl'))]
hooks_commits = props.HOOK_COMMITS if hasattr(props, 'HOOK_COMMITS') else []
m = {
    'version': 1,
    'setup_cmd': './setup.sh',
    'hooks': {
        'guard': 'LIBRFN_VERIF',
        'enable': 'checks compile /repo/librfn/*.c directly with -DLIBRFN_VERIF (no autotools); '
                  'hooks are add-only functions inside #ifdef LIBRFN_VERIF',
        'baseline_off_cmd': 'make -C /repo check',
        'source_commits': hooks_commits,
        'add_only': True,
    },
    'engines': props.ENGINES if hasattr(props, 'ENGINES') else [],
    'checks': [],
    'not_applicable': [],
    'notes': 'All checks are runtime monitors over executions of the real librfn code built from /repo\'s working '
             'tree (LIBRFN_REPO overrides the path for self-tests). Exit 0 = held on what was observed, 1 = VIOLATION, '
             '2 = inconclusive (never folded into the other two). known_findings.txt lists the genuine defects: eleven repaired by fix: commits in /repo (fixed: lines, which suppress nothing) and one recorded (known: line, C06, printed as KNOWN-FINDING when its history is observed; DESIGN.md 7.2 F12). See DESIGN.md.',
}
for pid in ids:
    if pid in props.PROPS and props.PROPS[pid].get('claimed', True):
        p = props.PROPS[pid]
        m['checks'].append({
            'property_id': pid,
            'quick_cmd': './check %s --tier quick' % pid,
            'thorough_cmd': './check %s --tier thorough' % pid,
            'evidence_file': 'evidence/%s.json' % pid,
            'replay_cmd_template': './check %s --replay {path}' % pid,
            'engine': p.get('engine', 'E1'),
            'level_claimed': {'category': 'exploration', 'text': p.get('level_text', ''),
                              'design_ref': 'DESIGN.md section 3, ' + pid},
            'level_note': p.get('level_note', ''),
            'technique': p.get('technique', 'runtime monitoring'),
        })
    else:
        m['not_applicable'].append({'property_id': pid,
                                    'reason': props.NOT_YET.get(pid, 'check not built yet (work in progress); no claim made')
                                    if hasattr(props, 'NOT_YET') else 'check not built yet (work in progress); no claim made'})
json.dump(m, open(os.path.join(VERIF, 'MANIFEST.json'), 'w'), indent=1)
print('MANIFEST.json: %d checks, %d not claimed' % (len(m['checks']), len(m['not_applicable'])))

/*
 * C06 and C03(b,c) - interrupt-context wake-ups and fibre events against the
 * scheduler, with interrupts injected at compiler-instrumented schedule points
 * (engine E2).  fibre.c, messageq.c and list.c are compiled with
 * -fsanitize=thread and linked with rt/shim.c; this file is not instrumented.
 *
 * Scenario family (the property's quantifier): an event-handling fibre H with
 * a 4-slot event queue, a yielding fibre Y and a sleeping fibre S, driven by a
 * simulated main loop in virtual time that sleeps until the returned wake-up
 * time unless an interrupt arrived after the scheduler's final check (WFE
 * semantics).  Between passes a script also calls fibre_run / fibre_kill.
 *
 * Interrupt handlers (ids): 0 run_atomic(Y), 1 event to H, 2 run_atomic(S),
 * 3 run_atomic(H) without event, 4 burst of 9 run_atomic (fills the 8-slot
 * queue), 5 two events back to back.
 *
 * Monitors
 *   C06 wake-ups: the sender bumps the fibre's work counter before posting and
 *       remembers it when fibre_run_atomic returned true; every dispatch
 *       records the counter it sees; at quiescence seen >= accepted.
 *   C06 events:   unique ids; every event whose send returned true is received
 *       exactly once, intact, and in real-time send order.
 *   C06 integrity: the scheduler reaches idle within the pass bound; nothing is
 *       left queued at idle (fibre_kill returns false for every fibre).
 *   C03(b): an accepted request that completed before the pass's last atomic
 *       load of the atomic run queue's flag word, and whose fibre was not
 *       dispatched afterwards in that pass, obliges the pass to return t.
 *   C03(c): whenever the main loop is about to sleep, no accepted request is
 *       unserved, no fibre has just yielded and no timeout is due earlier.
 *
 * --extra sweep    one ISR before every schedule point of every scenario
 * --extra nested   ISR pairs (second inside the first) at every (p, q)
 * --extra random   up to 12 ISRs at random points incl. nested, random scripts
 * A ":c03" suffix restricts recorded violations to the wake-up clauses.
 */
#include "vh.h"
#include "shim.h"

#include <setjmp.h>
#include <librfn/fibre.h>
#include <librfn/util.h>

void fibre_verif_reset(void);
void shim_set_abort_jmp(jmp_buf *j);

enum { FY, FS, FH, FP, FQ, NFIB }; /* P and Q: plain waiters that run only when requested */
static const char fname[] = "YSHPQ";

typedef struct {
	uint32_t id, check;
} event_t;

static fibre_t fibY, fibS, fibP, fibQ;
static fibre_eventq_t evH;
static event_t evbuf[4];
static int ev_slots = 4; /* the long runs also use a 3-slot queue: a depth that does not divide 256 */
static fibre_t *fibp[NFIB];

static uint32_t Tv;           /* virtual time */
static uint64_t ev_clock;     /* harness event counter (serialised execution) */
static bool only_c03, only_c01;
static bool failed;
static char scen[VH_TEXT];
static vh_sb_t evlog;

/* wake-up monitor */
static uint32_t work[NFIB], seen[NFIB], required[NFIB];
static uint64_t pending_since_ev[NFIB]; /* event index of the oldest unserved accepted request, 0 none */
static uint64_t last_dispatch_ev[NFIB];
static int dispatches[NFIB];
static bool yielded_last_pass;
static int yielded_fibre;
static bool sleeper_active;
static uint32_t sleeper_due;
static int s_rounds_left;

/* event monitor */
#define MAXEV 1024
static struct {
	uint32_t id;
	uint64_t inv, ret;
	bool accepted, published;
	int received;
} evs[MAXEV];
static int nevs;
static bool ev_overflow; /* more events than we can remember: event oracles are not judged in this run */
static uint64_t max_inv_received;
static uint32_t next_ev_id;

/* per-pass ISR records for the final-check clause */
#define MAXREC 4096
static struct {
	int target;
	bool accepted;
	bool withdrawn; /* a fibre_kill inside the same pass may have withdrawn it */
	int64_t p0; /* level-0 point before which the (outermost) ISR ran */
	uint64_t ev;
	int pass;
} recs[MAXREC];
static int nrecs;
static bool rec_overflow; /* more requests than we can remember: timing clauses are not judged any more in this run */
static int cur_pass;
static int64_t cur_isr_p0 = -1;
static int isr_fired, isr_in_pass_after_final;
static int stat_isr_inside_pass, stat_isr_inside_body, stat_atomic_refused, stat_isr_in_api;
static bool in_pass, in_body, in_api;
static bool co_mode; /* free-running sender "threads": the interrupt-timing clauses do not apply */

static void viol(const char *family, const char *key, const char *fmt, ...)
{
	char msg[700], k[160];
	va_list ap;
	va_start(ap, fmt);
	vsnprintf(msg, sizeof(msg), fmt, ap);
	va_end(ap);
	bool mine = only_c03 ? !strcmp(family, "wakeup") :
		    only_c01 ? (!strcmp(family, "dispatch") || !strcmp(family, "integrity") || !strcmp(family, "wakeup-lost")) :
			       strcmp(family, "dispatch") != 0; /* C06: everything but the arrival-order clause of C01 */
	if (!mine) {
		failed = true; /* ends the run quietly: not this check's clause */
		VH_COUNT("runs_cut_by_divergence_outside_this_check");
		return;
	}
	snprintf(k, sizeof(k), "%s:%s", family, key);
	vh_violation(k, vh_cur_replay, "%s | %s | events: %s", msg, scen, evlog.b);
	failed = true;
}

/* ---- arrival-order oracle (C01): requests whose calls do not overlap are served in their order of arrival ---- */
#define MAXREQ 512
static struct {
	int target;
	uint64_t inv, ret, served;
	bool fresh, withdrawn;
} reqs[MAXREQ];
static int nreqs;
static bool req_overflow;
static uint64_t last_idle_ev; /* event count at the start of the last pass that found nothing pending and saw no request */
/* a fibre_kill issued from inside a fibre may or may not have withdrawn the requests that arrived while it ran; from then on
 * a later request for that fibre is no longer known to be its only reason to run */
static bool never_fresh[NFIB];
static int req_open(int f)
{
	if (nreqs >= MAXREQ) {
		req_overflow = true;
		return -1;
	}
	reqs[nreqs].target = f;
	reqs[nreqs].inv = ++ev_clock;
	reqs[nreqs].ret = 0;
	reqs[nreqs].served = 0;
	reqs[nreqs].withdrawn = false;
	/* fresh: the target has no other reason to run.  Only the waiters H, P, Q qualify, and only if every earlier
	 * request for the same fibre was made before the scheduler last reported that nothing at all is pending
	 * (an earlier request may still sit undrained in the queue even after its fibre has run once) */
	reqs[nreqs].fresh = (f == FH || f == FP || f == FQ) && !never_fresh[f];
	for (int i = 0; i < nreqs; i++)
		if (reqs[i].target == f && !reqs[i].withdrawn && (!reqs[i].ret || reqs[i].ret > last_idle_ev))
			reqs[nreqs].fresh = false;
	return nreqs++;
}
static void req_close(int k, bool accepted)
{
	if (k < 0)
		return;
	if (accepted)
		reqs[k].ret = ++ev_clock;
	else
		reqs[k].withdrawn = true;
}
static void check_arrival_order(void);

static void note_dispatch(int f)
{
	in_body = true;
	ev_clock++;
	for (int i = 0; i < nreqs; i++)
		if (reqs[i].target == f && reqs[i].ret && !reqs[i].served && !reqs[i].withdrawn)
			reqs[i].served = ev_clock;
	seen[f] = work[f];
	last_dispatch_ev[f] = ev_clock;
	pending_since_ev[f] = 0;
	dispatches[f]++;
	vh_sb_add(&evlog, "[%c@%u] ", fname[f], Tv);
}

static int total_dispatches(void)
{
	int n = 0;
	for (int f = 0; f < NFIB; f++)
		n += dispatches[f];
	return n;
}

/* ---- fibre bodies ---- */
static int body_P(fibre_t *f)
{
	PT_BEGIN_FIBRE(f);
	for (;;) {
		note_dispatch(FP);
		PT_WAIT();
	}
	PT_END();
}
static int body_Q(fibre_t *f)
{
	PT_BEGIN_FIBRE(f);
	for (;;) {
		note_dispatch(FQ);
		shim_harness_point();
		PT_WAIT();
	}
	PT_END();
}
static int y_i;
static int body_Y(fibre_t *f)
{
	PT_BEGIN_FIBRE(f);
	for (;;) {
		note_dispatch(FY);
		for (y_i = 0; y_i < 2; y_i++) {
			shim_harness_point();
			PT_YIELD();
			note_dispatch(FY);
		}
		PT_WAIT();
	}
	PT_END();
}

static int s_kick; /* 1: the sleeper runs Q before it asks for its timeout, 2: it kills P (both drain the interrupt requests) */
static void wrap_api_begin(void);
static void wrap_api_end(void);
static bool s_timeout(void)
{
	note_dispatch(FS);
	in_body = true;
	if (s_kick) {
		/* an interrupt that woke S itself is drained here, so that S asks for a timeout while already runnable */
		shim_harness_point();
		wrap_api_begin();
		if (s_kick == 1) {
			vh_sb_add(&evlog, "S:run(Q) ");
			work[FQ]++;
			int rq = req_open(FQ);
			fibre_run(&fibQ);
			req_close(rq, true);
			if (work[FQ] > required[FQ])
				required[FQ] = work[FQ];
			if (!pending_since_ev[FQ])
				pending_since_ev[FQ] = ++ev_clock;
		} else {
			bool kr = fibre_kill(&fibP);
			vh_sb_add(&evlog, "S:kill(P)=%d ", kr);
			required[FP] = 0;
			pending_since_ev[FP] = 0;
			for (int i = 0; i < nreqs; i++)
				if (reqs[i].target == FP && !reqs[i].served)
					reqs[i].withdrawn = true;
			for (int i = 0; i < nrecs; i++)
				if (recs[i].target == FP)
					recs[i].withdrawn = true; /* recorded so far = accepted before the kill returned */
			never_fresh[FP] = true;
		}
		wrap_api_end();
		VH_COUNT("sleeper_ran_or_killed_another_fibre_before_sleeping");
	}
	bool r = fibre_timeout(sleeper_due);
	sleeper_active = !r;
	return r;
}
static int body_S(fibre_t *f)
{
	PT_BEGIN_FIBRE(f);
	note_dispatch(FS);
	while (s_rounds_left > 0) {
		s_rounds_left--;
		sleeper_due = Tv + 7;
		PT_WAIT_UNTIL(s_timeout());
		sleeper_active = false;
	}
	for (;;) {
		PT_WAIT();
		note_dispatch(FS);
	}
	PT_END();
}

static void got_event(event_t *e)
{
	ev_clock++;
	int k = -1;
	for (int i = 0; i < nevs; i++)
		if (evs[i].id == e->id)
			k = i;
	vh_sb_add(&evlog, "H:ev%u ", e->id);
	if (ev_overflow)
		return;
	if (k < 0 || e->check != ~e->id) {
		viol("event", "received-corrupt-event", "handler received an event with id %u check %08x that was never sent intact", e->id, e->check);
		return;
	}
	evs[k].received++;
	if (evs[k].received > 1) {
		viol("event", "event-received-twice", "event %u delivered %d times", e->id, evs[k].received);
		return;
	}
	if (!evs[k].published) {
		viol("event", "event-received-before-send", "event %u received before its send was invoked", e->id);
		return;
	}
	if (evs[k].ret && evs[k].ret < max_inv_received) {
		viol("event", "events-out-of-send-order", "event %u (send returned at %" PRIu64 ") received after an event whose claim was invoked at %" PRIu64,
		     e->id, evs[k].ret, max_inv_received);
		return;
	}
	if (evs[k].inv > max_inv_received)
		max_inv_received = evs[k].inv;
}

static int body_H(fibre_t *f)
{
	event_t *e;
	PT_BEGIN_FIBRE(f);
	for (;;) {
		note_dispatch(FH);
		{
			/* if the queue says "not empty", the one receiver must get a message */
			bool was_empty = fibre_eventq_empty(&evH);
			e = fibre_eventq_receive(&evH);
			if (!was_empty && !e)
				viol("event", "eventq_empty-false-but-receive-null", "fibre_eventq_empty returned false and the following receive returned nothing");
			if (e) {
				got_event(e);
				shim_harness_point();
				fibre_eventq_release(&evH, e);
			}
		}
		while ((e = fibre_eventq_receive(&evH)) != NULL) {
			got_event(e);
			shim_harness_point();
			fibre_eventq_release(&evH, e);
		}
		shim_harness_point(); /* the classic window: after the empty check, before waiting */
		PT_WAIT();
	}
	PT_END();
}

/* ---- interrupt handlers ---- */
static void post_wakeup(int f)
{
	work[f]++;
	uint32_t v = work[f];
	int rq = req_open(f);
	bool ok = fibre_run_atomic(fibp[f]);
	req_close(rq, ok);
	ev_clock++;
	vh_sb_add(&evlog, "<irq%d run_atomic(%c)=%d> ", shim_level(), fname[f], ok);
	if (ok) {
		if (v > required[f])
			required[f] = v;
		if (!pending_since_ev[f])
			pending_since_ev[f] = ev_clock;
	} else
		stat_atomic_refused++;
	if (nrecs >= MAXREC)
		rec_overflow = true;
	if (nrecs < MAXREC) {
		recs[nrecs].target = f;
		recs[nrecs].accepted = ok;
		recs[nrecs].withdrawn = false;
		recs[nrecs].p0 = cur_isr_p0;
		recs[nrecs].ev = ev_clock;
		recs[nrecs].pass = in_pass ? cur_pass : -1;
		nrecs++;
	}
}

/* An accepted event that was never received.  One history is a recorded finding of its own (known_findings.txt): the
 * event sits behind an event that was claimed earlier but published later, and the wake-up that should have followed
 * that later publication was refused because the atomic run queue was full (fibre_eventq_send returned false): the
 * handler had already consumed this event's own wake-up while the event was not yet receivable. */
static const char *lost_event_key(int i)
{
	if (evs[i].received)
		return "event-received-twice";
	for (int j = 0; j < nevs; j++)
		if (j != i && evs[j].published && !evs[j].accepted && evs[j].ret && !evs[j].received && evs[j].inv < evs[i].inv &&
		    evs[j].ret > evs[i].ret)
			return "accepted-event-stranded-behind-refused-send";
	return "event-lost";
}

static void post_event(void)
{
	uint64_t inv = ++ev_clock;
	event_t *e = fibre_eventq_claim(&evH);
	if (!e) {
		vh_sb_add(&evlog, "<irq%d claim=NULL> ", shim_level());
		return;
	}
	uint32_t id = next_ev_id++;
	int k = nevs < MAXEV ? nevs++ : -1;
	if (k < 0)
		ev_overflow = true;
	if (k >= 0) {
		evs[k].id = id;
		evs[k].inv = inv;
		evs[k].ret = 0;
		evs[k].accepted = false;
		evs[k].published = false;
		evs[k].received = 0;
	}
	e->id = id;
	e->check = ~id;
	work[FH]++;
	uint32_t v = work[FH];
	if (k >= 0)
		evs[k].published = true;
	int rq = req_open(FH);
	bool ok = fibre_eventq_send(&evH, e);
	req_close(rq, ok);
	ev_clock++;
	if (k >= 0) {
		evs[k].ret = ev_clock;
		evs[k].accepted = ok;
	}
	vh_sb_add(&evlog, "<irq%d ev%u send=%d> ", shim_level(), id, ok);
	if (ok) {
		if (v > required[FH])
			required[FH] = v;
		if (!pending_since_ev[FH])
			pending_since_ev[FH] = ev_clock;
	} else
		stat_atomic_refused++;
	if (nrecs >= MAXREC)
		rec_overflow = true;
	if (nrecs < MAXREC) {
		recs[nrecs].target = FH;
		recs[nrecs].accepted = ok;
		recs[nrecs].withdrawn = false;
		recs[nrecs].p0 = cur_isr_p0;
		recs[nrecs].ev = ev_clock;
		recs[nrecs].pass = in_pass ? cur_pass : -1;
		nrecs++;
	}
}

static void isr(int level, int id, void *ctx)
{
	(void)ctx;
	int64_t saved = cur_isr_p0;
	if (level == 1)
		cur_isr_p0 = (int64_t)shim_points(0) - 1;
	isr_fired++;
	if (in_body)
		stat_isr_inside_body++;
	else if (in_pass)
		stat_isr_inside_pass++;
	else if (in_api)
		stat_isr_in_api++;
	switch (id) {
	case 0: post_wakeup(FY); break;
	case 1: post_event(); break;
	case 2: post_wakeup(FS); break;
	case 3: post_wakeup(FH); break;
	case 4: {
		static const int burst[9] = { FP, FQ, FY, FP, FS, FQ, FH, FP, FQ };
		for (int i = 0; i < 9; i++)
			post_wakeup(burst[i]);
		break;
	}
	case 6: post_wakeup(FP); break;
	case 7: post_wakeup(FQ); break;
	case 8:
		post_wakeup(FP);
		post_wakeup(FQ);
		post_wakeup(FH);
		break;
	default:
		post_event();
		post_event();
		break;
	}
	cur_isr_p0 = saved;
}

/* ---- scenario machinery ---- */
typedef struct {
	const char *name;
	bool useY, useS, useH;
	int s_rounds;
	const char *script; /* p pass, r fibre_run(Y), R fibre_run(H), k fibre_kill(Y), K fibre_kill(S), e event from main context */
	int s_kick;	    /* see s_timeout() */
} scenario_t;

static const scenario_t scenarios[] = {
	{ "handler + yielder + sleeper", true, true, true, 2, "ppppppp" },
	{ "handler only (idle scheduler)", false, false, true, 0, "ppp" },
	{ "lone yielder (fast path)", true, false, false, 0, "pppp" },
	{ "lone sleeper", false, true, false, 2, "pppp" },
	{ "yielder + sleeper", true, true, false, 1, "ppppp" },
	{ "handler + yielder, run and kill between passes", true, false, true, 0, "pprpkprpp" },
	{ "handler + sleeper, kill the sleeper", false, true, true, 2, "ppKppep" },
	{ "event from main context then passes", true, true, true, 1, "eppRpp" },
	{ "handler + sleeper that runs another fibre before it sleeps", false, true, true, 2, "ppppp", 1 },
	{ "handler + sleeper that kills another fibre before it sleeps", false, true, true, 2, "ppppp", 2 },
};
#define NSCEN (sizeof(scenarios) / sizeof(scenarios[0]))

static jmp_buf abort_env;
static int passes_run;
static uint64_t total_p0;

static void wrap_api_begin(void) { in_api = true; }
static void wrap_api_end(void) { in_api = false; }

static void do_pass(void)
{
	if (failed)
		return;
	cur_pass++;
	passes_run++;
	int first_rec = nrecs;
	uint64_t ev_at_start = ev_clock;
	int nreqs_at_start = nreqs;
	bool in_progress_at_start = false; /* a sender between claim and send blocks the queue behind it */
	for (int i = 0; i < nreqs; i++)
		if (!reqs[i].ret && !reqs[i].withdrawn)
			in_progress_at_start = true;
	shim_clear_last_watched_load();
	yielded_last_pass = false;
	int disp_before[NFIB];
	memcpy(disp_before, dispatches, sizeof(disp_before));
	in_pass = true;
	in_body = false;
	vh_sb_add(&evlog, "pass(%u)", Tv);
	uint32_t wake = fibre_scheduler_next(Tv);
	in_pass = false;
	in_body = false;
	vh_sb_add(&evlog, "->%s%u ", wake == Tv ? "now/" : "", wake);
	VH_COUNT("passes");
	if (failed)
		return;
	if (wake != Tv && nreqs == nreqs_at_start) {
		/* everything requested before this pass has been drained and served - unless some request is still
		 * in progress (a sender between claim and send blocks the queue behind it) */
		bool in_progress = in_progress_at_start;
		for (int i = 0; i < nreqs; i++)
			if (!reqs[i].ret && !reqs[i].withdrawn)
				in_progress = true;
		if (!in_progress)
			last_idle_ev = ev_at_start;
	}
	if (co_mode) {
		Tv += 1;
		return;
	}
	int64_t L = shim_last_watched_load();
	int64_t W = shim_last_write0();
	fibre_t *self = fibre_self();
	bool self_yielded = false;
	if (self) {
		/* the fibre state is public: the scheduler stores the returned state at the next pass; we know Y yields */
		int f = self == &fibY ? FY : self == &fibS ? FS : FH;
		(void)f;
	}
	(void)self_yielded;

	/* C03(b): requests that completed before the final check */
	bool after_final = rec_overflow;
	for (int i = first_rec; i < nrecs; i++) {
		if (!recs[i].accepted || recs[i].withdrawn)
			continue;
		bool before_final = L >= 0 && recs[i].p0 >= 0 && recs[i].p0 <= L;
		int f = recs[i].target;
		bool dispatched_after = last_dispatch_ev[f] > recs[i].ev;
		if (!before_final) {
			after_final = true;
			/* reading of "final check" that does not depend on where the implementation put it: the check
			 * belongs to the computation of the return value, i.e. it comes after the scheduler's last
			 * modification of its own state in this pass */
			if (W >= 0 && recs[i].p0 >= 0 && recs[i].p0 <= W && !dispatched_after && wake != Tv) {
				viol("wakeup", "request-before-end-of-scheduling-work-ignored",
				     "a request for %c was accepted before level-0 point %" PRId64 ", the scheduler was still modifying its state up to point %" PRId64
				     " (its last look at the request queue was at point %" PRId64 "), %c was not dispatched afterwards, yet fibre_scheduler_next(%u) returned %u",
				     fname[f], recs[i].p0, W, L, fname[f], Tv, wake);
				return;
			}
			continue;
		}
		VH_COUNT("requests_completed_before_final_check");
		if (!dispatched_after && wake != Tv) {
			viol("wakeup", "request-before-final-check-ignored",
			     "fibre_run_atomic/eventq_send for %c was accepted before level-0 point %" PRId64
			     ", the scheduler's last check of the request queue was at point %" PRId64
			     ", %c was not dispatched afterwards, yet fibre_scheduler_next(%u) returned %u",
			     fname[f], recs[i].p0, L, fname[f], Tv, wake);
			return;
		}
	}
	if (after_final) {
		isr_in_pass_after_final++;
		VH_COUNT("passes_with_request_after_final_check");
	}

	/* C03(c): the main loop's sleep decision (WFE: do not sleep if an interrupt came after the final check) */
	if (wake != Tv && !after_final) {
		int32_t delta = (int32_t)(wake - Tv);
		for (int f = 0; f < NFIB; f++)
			if (pending_since_ev[f]) {
				viol("wakeup", "sleeps-with-unserved-request",
				     "fibre_scheduler_next(%u) returned %u (sleep %d ticks) while an accepted request for %c is unserved", Tv, wake,
				     delta, fname[f]);
				return;
			}
		if (sleeper_active && (int32_t)(sleeper_due - wake) < 0) {
			viol("wakeup", "sleeps-past-a-timeout", "fibre_scheduler_next(%u) returned %u but the sleeper is due at %u", Tv, wake,
			     sleeper_due);
			return;
		}
		if (delta < 0) {
			viol("wakeup", "wakeup-in-the-past", "fibre_scheduler_next(%u) returned %u", Tv, wake);
			return;
		}
		VH_COUNT("sleep_decisions_checked");
		if (delta > 0 && delta < 1000)
			Tv = wake;
		else if (delta >= 1000)
			Tv += 1; /* unbounded sleep: nothing to wait for; let time creep */
	}
}

static void main_event(void)
{
	wrap_api_begin();
	post_event();
	wrap_api_end();
}

static void run_script_char(char c)
{
	switch (c) {
	case 'p': do_pass(); break;
	case 'r':
		wrap_api_begin();
		vh_sb_add(&evlog, "run(Y) ");
		work[FY]++;
		{
			int rq = req_open(FY);
			fibre_run(&fibY);
			req_close(rq, true);
		}
		if (work[FY] > required[FY])
			required[FY] = work[FY];
		if (!pending_since_ev[FY])
			pending_since_ev[FY] = ++ev_clock;
		wrap_api_end();
		break;
	case 'R':
		wrap_api_begin();
		vh_sb_add(&evlog, "run(H) ");
		work[FH]++;
		{
			int rq = req_open(FH);
			fibre_run(&evH.fibre);
			req_close(rq, true);
		}
		if (work[FH] > required[FH])
			required[FH] = work[FH];
		if (!pending_since_ev[FH])
			pending_since_ev[FH] = ++ev_clock;
		wrap_api_end();
		break;
	case 'k':
	case 'K': {
		int f = c == 'k' ? FY : FS;
		wrap_api_begin();
		bool r = fibre_kill(fibp[f]);
		wrap_api_end();
		vh_sb_add(&evlog, "kill(%c)=%d ", fname[f], r);
		/* requests accepted before the kill returned may have been withdrawn */
		required[f] = 0;
		pending_since_ev[f] = 0;
		for (int i = 0; i < nreqs; i++)
			if (reqs[i].target == f && !reqs[i].served)
				reqs[i].withdrawn = true;
		if (f == FS)
			sleeper_active = false;
		if (f == FY) {
			/* a killed yielder may still be re-queued as "the fibre that yielded in the previous pass" */
		}
		break;
	}
	case 'e': main_event(); break;
	}
}

static void setup(const scenario_t *sc)
{
	fibre_verif_reset();
	fibre_init(&fibY, body_Y);
	fibre_init(&fibS, body_S);
	fibre_init(&fibP, body_P);
	fibre_init(&fibQ, body_Q);
	nreqs = 0;
	req_overflow = false;
	ev_overflow = false;
	last_idle_ev = 0;
	static unsigned setup_no;
	if (++setup_no & 1) {
		fibre_eventq_init(&evH, body_H, evbuf, (size_t)ev_slots * sizeof(evbuf[0]), sizeof(evbuf[0]));
	} else {
		/* the static initialiser must describe the same fibre + event queue */
		fibre_eventq_t tmp = FIBRE_EVENTQ_VAR_INIT(body_H, evbuf, (size_t)ev_slots * sizeof(evbuf[0]), sizeof(evbuf[0]));
		memset(&evH, 0x5a, sizeof(evH));
		memcpy(&evH, &tmp, sizeof(evH));
	}
	fibp[FY] = &fibY;
	fibp[FS] = &fibS;
	fibp[FH] = &evH.fibre;
	fibp[FP] = &fibP;
	fibp[FQ] = &fibQ;
	Tv = 1000;
	ev_clock = 1;
	memset(work, 0, sizeof(work));
	memset(seen, 0, sizeof(seen));
	memset(required, 0, sizeof(required));
	memset(pending_since_ev, 0, sizeof(pending_since_ev));
	memset(last_dispatch_ev, 0, sizeof(last_dispatch_ev));
	memset(dispatches, 0, sizeof(dispatches));
	sleeper_active = false;
	s_rounds_left = sc->s_rounds;
	s_kick = sc->s_kick;
	memset(never_fresh, 0, sizeof(never_fresh));
	nevs = 0;
	max_inv_received = 0;
	next_ev_id = 1;
	nrecs = 0;
	rec_overflow = false;
	cur_pass = 0;
	cur_isr_p0 = -1;
	isr_fired = isr_in_pass_after_final = 0;
	stat_isr_inside_pass = stat_isr_inside_body = stat_atomic_refused = stat_isr_in_api = 0;
	in_pass = in_body = in_api = false;
	failed = false;
	passes_run = 0;
	vh_sb_reset(&evlog);
	if (sc->useY) {
		work[FY]++;
		required[FY] = work[FY];
		fibre_run(&fibY);
	}
	if (sc->useS) {
		work[FS]++;
		required[FS] = work[FS];
		fibre_run(&fibS);
	}
}

/* runs the scenario with whatever plan/random injection is loaded; returns level-0 points of the scripted part */
static uint64_t run(const scenario_t *sc, const char *script)
{
	shim_enable(false);
	setup(sc);
	shim_set_isr(isr, NULL);
	shim_set_point_limit(2000000);
	shim_set_abort_jmp(&abort_env);
	uint64_t pts = 0;
	if (setjmp(abort_env) == 0) {
		shim_enable(true);
		for (const char *s = script; *s && !failed; s++)
			run_script_char(*s);
		pts = shim_points(0);
		/* quiescence: interrupts stopped; run until the scheduler reports an unbounded sleep */
		shim_enable(false);
		int bound = NFIB + 8 + 4 + 3 * sc->s_rounds + 12;
		int k = 0;
		for (; k < bound && !failed; k++) {
			uint32_t before = Tv;
			int d0 = total_dispatches();
			do_pass();
			bool idle = (total_dispatches()) == d0;
			if (idle && !sleeper_active && Tv == before + 1)
				break;
		}
		if (k >= bound && !failed)
			viol("wakeup-lost", "scheduler-never-idle", "after the last interrupt the scheduler did not reach idle within %d passes", bound);
	} else {
		viol("integrity", "livelock", "a library call did not finish within 2000000 schedule points (%d passes so far)", passes_run);
	}
	shim_set_abort_jmp(NULL);
	shim_enable(false);
	total_p0 = pts;
	if (failed)
		return pts;
	/* ---- C06 oracles at quiescence ---- */
	for (int f = 0; f < NFIB; f++)
		if (seen[f] < required[f]) {
			char key[64];
			snprintf(key, sizeof(key), "accepted-wakeup-never-observed:%c", fname[f]);
			viol("wakeup-lost", key,
			     "fibre %c last ran when its work counter was %u, but a wake-up posted at counter value %u was accepted (fibre_run_atomic returned true) and the scheduler is idle",
			     fname[f], seen[f], required[f]);
			return pts;
		}
	for (int i = 0; i < nevs && !ev_overflow; i++)
		if (evs[i].accepted && evs[i].received != 1) {
			viol("event", lost_event_key(i),
			     "event %u: fibre_eventq_send returned true, it was received %d times and the scheduler is idle", evs[i].id, evs[i].received);
			return pts;
		}
	for (int f = 0; f < NFIB; f++)
		if (fibre_kill(fibp[f])) {
			char key[64];
			snprintf(key, sizeof(key), "fibre-still-queued-at-idle:%c", fname[f]);
			viol("integrity", key, "the scheduler reported an unbounded sleep but fibre %c was still on a queue", fname[f]);
			return pts;
		}
	check_arrival_order();
	VH_COUNT_N("events_delivered", nevs);
	VH_COUNT_N("isr_inside_scheduler_pass", stat_isr_inside_pass);
	VH_COUNT_N("isr_inside_fibre_body", stat_isr_inside_body);
	VH_COUNT_N("isr_inside_fibre_run_or_kill", stat_isr_in_api);
	VH_COUNT_N("atomic_requests_refused(queue full)", stat_atomic_refused);
	return pts;
}

static void check_arrival_order(void)
{
	if (failed || req_overflow)
		return;
	for (int j = 0; j < nreqs; j++) {
		if (!reqs[j].ret || reqs[j].withdrawn || !reqs[j].fresh || !reqs[j].served)
			continue;
		for (int i = 0; i < nreqs; i++) {
			if (i == j || !reqs[i].ret || reqs[i].withdrawn || reqs[i].target == reqs[j].target)
				continue;
			if (reqs[i].ret >= reqs[j].inv)
				continue; /* overlapping or later: no order promised */
			if (reqs[i].served && reqs[i].served < reqs[j].inv)
				continue; /* already served before j arrived */
			VH_COUNT("ordered_request_pairs_checked");
			if (!reqs[i].served || reqs[j].served < reqs[i].served) {
				viol("dispatch", "requests-served-out-of-arrival-order",
				     "a request for %c was accepted (call returned at event %" PRIu64 ") before a request for %c was made (event %" PRIu64
				     "); %c had no other reason to run, yet %c ran first (event %" PRIu64 ") and %c %s",
				     fname[reqs[i].target], reqs[i].ret, fname[reqs[j].target], reqs[j].inv, fname[reqs[j].target], fname[reqs[j].target],
				     reqs[j].served, fname[reqs[i].target], reqs[i].served ? "only later" : "never");
				return;
			}
		}
	}
}

static void learn_watch(void)
{
	/* the atomic run queue's flag word = target of the first fetch_or inside fibre_run_atomic */
	fibre_verif_reset();
	fibre_init(&fibY, body_Y);
	shim_reset();
	shim_learn_next_fetch_or();
	shim_enable(true);
	fibre_run_atomic(&fibY);
	shim_enable(false);
	if (!shim_watched())
		vh_violation("harness:no-watch", "", "could not learn the address of the request queue's flag word");
}

static void after_run(const scenario_t *sc, uint64_t sig)
{
	vh_evaluations++;
	bool nontrivial = stat_isr_inside_pass || stat_isr_inside_body || stat_atomic_refused || stat_isr_in_api;
	if (nontrivial) {
		vh_distinct(sig);
		VH_COUNT("runs_nontrivial");
	}
	(void)sc;
}

static void sweep(bool nested)
{
	static const int single_ids[] = { 0, 1, 2, 3, 4, 5, 6, 8 };
	static const int pair_ids[][2] = { { 1, 1 }, { 0, 1 }, { 1, 0 }, { 4, 1 }, { 2, 0 }, { 5, 3 }, { 6, 7 }, { 4, 6 }, { 8, 4 } };
	uint64_t caseno = 0;
	for (unsigned si = 0; si < NSCEN; si++) {
		const scenario_t *sc = &scenarios[si];
		const void *w = shim_watched();
		shim_reset();
		shim_watch(w);
		snprintf(scen, sizeof(scen), "scenario '%s' script %s, no interrupt", sc->name, sc->script);
		char key[96];
		snprintf(key, sizeof(key), "dry:scenario=%u", si);
		vh_case_key(key);
		vh_case_desc("%s", scen);
		vh_case_replay("--extra %s", vh_opt.extra);
		uint64_t P = run(sc, sc->script);
		after_run(sc, vh_mix(0x60, si));
		VH_COUNT("scenarios");
		VH_COUNT_N("main_context_schedule_points", P);
		int nids = nested ? (int)(sizeof(pair_ids) / sizeof(pair_ids[0])) : (int)(sizeof(single_ids) / sizeof(int));
		for (int ii = 0; ii < nids; ii++)
			for (uint64_t p = 0; p < P && vh_nviol < 8; p++, caseno++) {
				if (!nested) {
					if ((caseno % (uint64_t)vh_opt.nproc) != (uint64_t)vh_opt.proc)
						continue;
					shim_reset();
					shim_watch(w);
					shim_plan_add(0, 0, p, single_ids[ii]);
					snprintf(scen, sizeof(scen), "scenario '%s' script %s, ISR %d before main-context point %" PRIu64 " of %" PRIu64, sc->name,
						 sc->script, single_ids[ii], p, P);
					snprintf(key, sizeof(key), "sweep:scenario=%u,isr=%d,p=%" PRIu64, si, single_ids[ii], p);
					vh_case_key(key);
					vh_case_desc("%s", scen);
					run(sc, sc->script);
					after_run(sc, vh_mix(vh_mix(vh_mix(0x61, si), (uint64_t)ii), p));
					VH_COUNT("single_isr_placements");
					if (vh_want_sample() && p % 17 == 5 && stat_isr_inside_pass)
						vh_sample("%s | %s", scen, evlog.b);
				} else {
					/* first find how many points the first ISR has at this placement */
					shim_reset();
					shim_watch(w);
					shim_plan_add(0, 0, p, pair_ids[ii][0]);
					snprintf(scen, sizeof(scen), "(sizing run)");
					run(sc, sc->script);
					if (failed && vh_nviol)
						continue;
					uint64_t Q = shim_points(1);
					for (uint64_t qn = 0; qn < Q && vh_nviol < 8; qn++, caseno++) {
						if ((caseno % (uint64_t)vh_opt.nproc) != (uint64_t)vh_opt.proc)
							continue;
						shim_reset();
						shim_watch(w);
						shim_plan_add(0, 0, p, pair_ids[ii][0]);
						shim_plan_add(1, 1, qn, pair_ids[ii][1]);
						snprintf(scen, sizeof(scen), "scenario '%s' script %s, ISR %d before main-context point %" PRIu64 ", ISR %d nested before its point %" PRIu64,
							 sc->name, sc->script, pair_ids[ii][0], p, pair_ids[ii][1], qn);
						snprintf(key, sizeof(key), "nested:scenario=%u,isr=%d+%d,p=%" PRIu64 ",q=%" PRIu64, si, pair_ids[ii][0],
							 pair_ids[ii][1], p, qn);
						vh_case_key(key);
						vh_case_desc("%s", scen);
						run(sc, sc->script);
						after_run(sc, vh_mix(vh_mix(vh_mix(vh_mix(0x62, si), (uint64_t)ii), p), qn));
						VH_COUNT("nested_pair_placements");
						if (vh_want_sample() && (p * 31 + qn) % 97 == 11 && evlog.n < 700)
							vh_sample("%s | %s", scen, evlog.b);
					}
				}
			}
	}
	vh_exhaustive = vh_nviol == 0;
	snprintf(vh_note, sizeof(vh_note), "%s: every placement in %u scenarios", nested ? "nested ISR pairs (6 id pairs)" : "single ISR (6 handlers)",
		 (unsigned)NSCEN);
}

/* several hundred events through a 3- and a 4-slot event queue (any 8-bit index or ticket wraps with events pending) */
static void long_runs(void)
{
	const void *w = shim_watched();
	for (int slots = 3; slots <= 4; slots++) {
		ev_slots = slots;
		shim_reset();
		shim_watch(w);
		snprintf(scen, sizeof(scen), "long run: 600 events through a %d-slot event queue, one or two per pass from main context and interrupts", slots);
		char key[64];
		snprintf(key, sizeof(key), "long:slots=%d", slots);
		vh_case_key(key);
		vh_case_budget(600);
		vh_case_desc("%s", scen);
		vh_case_replay("--extra %s", vh_opt.extra);
		shim_enable(false);
		setup(&scenarios[1]); /* handler only */
		shim_set_isr(isr, NULL);
		shim_random_isr(0, 300, 100000, 1, 1, 12345 + (uint64_t)slots); /* id 1: one event */
		shim_enable(true);
		for (int i = 0; i < 450 && !failed; i++) {
			main_event();
			if (i % 3 == 0)
				main_event();
			do_pass();
			do_pass();
			if (evlog.n > VH_TEXT - 300)
				vh_sb_reset(&evlog);
		}
		shim_enable(false);
		for (int k = 0; k < 30 && !failed; k++)
			do_pass();
		for (int i = 0; i < nevs && !failed && !ev_overflow; i++)
			if (evs[i].accepted && evs[i].received != 1)
				viol("event", lost_event_key(i),
				     "event %u of the long run: send returned true, received %d times, scheduler idle", evs[i].id, evs[i].received);
		vh_evaluations++;
		VH_COUNT("long_event_runs");
		VH_COUNT_N("long_run_events", nevs);
		vh_distinct(vh_mix(0x10e6, (uint64_t)slots));
	}
	ev_slots = 4;
}

static void random_runs(void)
{
	if (vh_opt.proc == 0 && vh_opt.only_case < 0)
		long_runs();
	long long n = vh_opt.cases ? vh_opt.cases : (vh_opt.thorough ? 8000000 : 30000);
	const void *w = shim_watched();
	for (long long c = vh_opt.proc; c < n && vh_nviol < 8; c += vh_opt.nproc) {
		if (vh_opt.only_case >= 0 && c != vh_opt.only_case)
			continue;
		vh_rng_t r;
		vh_rng_seed(&r, vh_opt.seed, 6, (uint64_t)c);
		const scenario_t *base = &scenarios[vh_below(&r, NSCEN)];
		scenario_t sc = *base;
		char script[40];
		int len = 4 + (int)vh_below(&r, 14);
		for (int i = 0; i < len; i++) {
			uint32_t x = vh_below(&r, 20);
			script[i] = x < 13 ? 'p' : x < 15 ? (sc.useY ? 'r' : 'p') : x < 16 ? (sc.useH ? 'R' : 'p') :
				    x < 17 ? (sc.useY ? 'k' : 'p') : x < 18 ? (sc.useS ? 'K' : 'p') : (sc.useH ? 'e' : 'p');
		}
		script[len] = 0;
		shim_reset();
		shim_watch(w);
		uint32_t rate = 200 + vh_below(&r, 3000); /* per-point probability / 65536 */
		int maxisr = 1 + (int)vh_below(&r, 12);
		shim_random_isr(0, rate, maxisr, 0, 9, vh_next(&r));
		if (vh_below(&r, 2))
			shim_random_isr(1, 2000 + vh_below(&r, 8000), 1 + (int)vh_below(&r, 3), 0, 9, vh_next(&r));
		snprintf(scen, sizeof(scen), "random run on scenario '%s' script %s: up to %d ISRs at rate %u/65536 per point", sc.name, script,
			 maxisr, rate);
		char key[64];
		snprintf(key, sizeof(key), "random:case=%lld", c);
		vh_case_key(key);
		vh_case_desc("%s", scen);
		vh_case_replay("--extra %s --only-case %lld", vh_opt.extra, c);
		run(&sc, script);
		uint64_t h = 0x63;
		for (int i = 0; i < evlog.n; i++)
			h = vh_mix(h, (unsigned char)evlog.b[i]);
		after_run(&sc, h);
		VH_COUNT("random_runs");
		VH_COUNT_N("isrs_fired", isr_fired);
		if (vh_want_sample() && isr_fired >= 3 && evlog.n < 600 && c % 13 == 2)
			vh_sample("%s | %s", scen, evlog.b);
	}
}

/* ---- free-running sender "threads" against the main-context scheduler loop ---- */
static int co_senders_left;
static vh_rng_t co_rng;
static const scenario_t *co_sc;

static void co_sender(void *arg)
{
	int me = (int)(intptr_t)arg;
	vh_rng_t r;
	vh_rng_seed(&r, vh_next(&co_rng), 66, (uint64_t)me);
	int n = 1 + (int)vh_below(&r, 10);
	for (int i = 0; i < n && !failed; i++) {
		uint32_t x = vh_below(&r, 10);
		if (x < 5 && co_sc->useH)
			post_event();
		else if (x < 7 && co_sc->useY)
			post_wakeup(FY);
		else if (x < 8 && co_sc->useS)
			post_wakeup(FS);
		else if (x < 9)
			post_wakeup(vh_below(&r, 2) ? FP : FQ);
		else
			post_wakeup(FH);
		if (vh_below(&r, 3) == 0)
			shim_co_backoff();
	}
	co_senders_left--;
}

static void co_main(void *arg)
{
	(void)arg;
	int guard = 0;
	while (co_senders_left > 0 && !failed && guard++ < 100000) {
		int d0 = total_dispatches();
		do_pass();
		if (total_dispatches() == d0)
			shim_co_backoff();
	}
}

static void co_runs(void)
{
	long long n = vh_opt.cases ? vh_opt.cases : (vh_opt.thorough ? 4000000 : 20000);
	co_mode = true;
	for (long long c = vh_opt.proc; c < n && vh_nviol < 8; c += vh_opt.nproc) {
		if (vh_opt.only_case >= 0 && c != vh_opt.only_case)
			continue;
		vh_rng_seed(&co_rng, vh_opt.seed, 606, (uint64_t)c);
		static const int pick[] = { 0, 0, 1, 5, 6, 7 };
		const scenario_t *sc = &scenarios[pick[vh_below(&co_rng, 6)]];
		co_sc = sc;
		int nsend = 1 + (int)vh_below(&co_rng, 4);
		int policy = vh_below(&co_rng, 3) == 0 ? SHIM_POLICY_PCT : SHIM_POLICY_RANDOM;
		static const uint32_t probs[] = { 1311, 6554, 32768 };
		uint32_t param = policy == SHIM_POLICY_PCT ? 1 + vh_below(&co_rng, 3) : probs[vh_below(&co_rng, 3)];
		snprintf(scen, sizeof(scen), "scenario '%s' with %d free-running sender threads, %s(%u)", sc->name, nsend,
			 policy == SHIM_POLICY_PCT ? "PCT d=" : "random p/65536=", param);
		char key[64];
		snprintf(key, sizeof(key), "co:case=%lld", c);
		vh_case_key(key);
		vh_case_desc("%s", scen);
		vh_case_replay("--extra %s --only-case %lld", vh_opt.extra, c);
		shim_reset();
		shim_enable(false);
		setup(sc);
		co_senders_left = nsend;
		shim_co_begin(policy, param, vh_next(&co_rng));
		shim_co_spawn(co_main, NULL);
		for (int i = 0; i < nsend; i++)
			shim_co_spawn(co_sender, (void *)(intptr_t)i);
		shim_enable(true);
		bool fin = shim_co_run(4000000);
		shim_enable(false);
		if (!fin && !failed)
			viol("integrity", "livelock", "schedule exceeded 4000000 schedule points");
		/* quiescence */
		int bound = NFIB + 8 + 4 + 3 * sc->s_rounds + 12 + 40;
		int k = 0;
		for (; k < bound && !failed; k++) {
			int d0 = total_dispatches();
			do_pass();
			if (total_dispatches() == d0 && !sleeper_active)
				break;
		}
		if (k >= bound && !failed)
			viol("wakeup-lost", "scheduler-never-idle", "after the senders stopped the scheduler did not reach idle within %d passes", bound);
		for (int f = 0; f < NFIB && !failed; f++)
			if (seen[f] < required[f]) {
				char k2[64];
				snprintf(k2, sizeof(k2), "accepted-wakeup-never-observed:%c", fname[f]);
				viol("wakeup-lost", k2, "fibre %c last ran at work counter %u, a wake-up at %u was accepted, scheduler idle", fname[f], seen[f],
				     required[f]);
			}
		for (int i = 0; i < nevs && !failed && !ev_overflow; i++)
			if (evs[i].accepted && evs[i].received != 1)
				viol("event", lost_event_key(i),
				     "event %u: fibre_eventq_send returned true, received %d times, scheduler idle", evs[i].id, evs[i].received);
		check_arrival_order();
		vh_evaluations++;
		VH_COUNT("coroutine_schedules");
		VH_COUNT_N("events_delivered", nevs);
		VH_COUNT_N("context_switches", shim_co_switches());
		vh_distinct(shim_co_schedule_hash());
		VH_COUNT("runs_nontrivial");
		if (vh_want_sample() && evlog.n < 500 && c % 11 == 3)
			vh_sample("%s | %s", scen, evlog.b);
	}
}

int main(int argc, char **argv)
{
	vh_init(argc, argv, "sched_isr");
	if (!vh_opt.extra)
		vh_opt.extra = "sweep";
	only_c03 = strstr(vh_opt.extra, ":c03") != NULL;
	only_c01 = strstr(vh_opt.extra, ":c01") != NULL;
	learn_watch();
	if (!strncmp(vh_opt.extra, "sweep", 5))
		sweep(false);
	else if (!strncmp(vh_opt.extra, "nested", 6))
		sweep(true);
	else if (!strncmp(vh_opt.extra, "co", 2))
		co_runs();
	else
		random_runs();
	return vh_finish();
}

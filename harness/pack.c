/*
 * C12 - pack/unpack never leaves the buffer, fails stickily, fixed byte order.
 *
 * Model: byte image of the buffer, unbounded cursor, sticky overflow flag.
 * Expected bytes are computed from the operation's name (le/be), never by
 * calling the library.  Buffers (and unpack destinations) are exactly-sized heap
 * blocks, so any out-of-bounds access is an ASan report.
 *
 * mode "hist": random operation strings over buffer sizes 0..40
 * mode "vals": every 16-bit value through each 16-bit packer/unpacker, 32-bit
 *              patterns through the 32-bit ones, at every alignment
 */
#include "vh.h"

#include <librfn/pack.h>

enum { P_BYTES, P_S16LE, P_U16BE, P_U16LE, P_S32LE, P_U32LE, U_BYTES, U_CHAR, U_S8, U_U8, U_U16LE, U_U32LE, NOPS };
static const char *const names[] = { "pack_bytes", "pack_s16le", "pack_u16be", "pack_u16le", "pack_s32le", "pack_u32le",
				     "unpack_bytes", "unpack_char", "unpack_s8", "unpack_u8", "unpack_u16le", "unpack_u32le" };

static uint8_t *buf; /* real buffer, exactly S bytes */
static uint8_t *model;
static size_t S;
static int64_t cursor;
static bool overflowed;
static rf_pack_t pk;
static vh_sb_t trace;
static bool failed;
static uint32_t flags;
#define F_OVERFLOW_INSIDE 1 /* first non-fitting item started strictly inside the buffer */
#define F_SMALLER_AFTER 2   /* ... and a later, smaller item would have fitted at that offset */
#define F_EXACT_FIT 4
static int64_t overflow_start;
static size_t overflow_size;

static void fail(const char *clause, const char *fmt, ...)
{
	char msg[500];
	va_list ap;
	va_start(ap, fmt);
	vsnprintf(msg, sizeof(msg), fmt, ap);
	va_end(ap);
	vh_violation(clause, vh_cur_replay, "%s | buffer size %zu, operations: %s", msg, S, trace.b);
	failed = true;
}

static void start(size_t size, vh_rng_t *r)
{
	free(buf);
	free(model);
	S = size;
	buf = malloc(S ? S : 1);
	if (!S) {
		/* a zero-sized buffer: hand the library a pointer with no valid bytes */
		free(buf);
		buf = malloc(0);
	}
	model = malloc(S + 1);
	for (size_t i = 0; i < S; i++)
		model[i] = buf[i] = (uint8_t)vh_next(r);
	memset(&pk, 0xA5, sizeof(pk)); /* rf_pack_init starts afresh whatever the cursor object held */
	rf_pack_init(&pk, buf, (unsigned)S);
	cursor = 0;
	overflowed = false;
	failed = false;
	flags = 0;
	vh_sb_reset(&trace);
}

/* does an item of n bytes transfer?  advances the model cursor */
static bool model_fits(size_t n)
{
	int64_t st = cursor;
	cursor += (int64_t)n;
	if (!overflowed && st + (int64_t)n <= (int64_t)S) {
		if (n && st + (int64_t)n == (int64_t)S)
			flags |= F_EXACT_FIT;
		return true;
	}
	if (!overflowed) {
		overflowed = true;
		overflow_start = st;
		overflow_size = n;
		if (st < (int64_t)S)
			flags |= F_OVERFLOW_INSIDE;
	} else if ((flags & F_OVERFLOW_INSIDE) && n && n < overflow_size && overflow_start + (int64_t)n <= (int64_t)S) {
		flags |= F_SMALLER_AFTER;
	}
	return false;
}

static void check_after(int op)
{
	if (failed)
		return;
	char clause[96];
	if (S && memcmp(buf, model, S)) {
		size_t d = 0;
		while (buf[d] == model[d])
			d++;
		snprintf(clause, sizeof(clause), "buffer-differs-after:%s", names[op]);
		fail(clause, "byte %zu of the buffer is 0x%02x, model has 0x%02x (cursor before/after item: %" PRId64 ")", d, buf[d],
		     model[d], cursor);
		return;
	}
	int c = rf_pack_consumed(&pk), rem = rf_pack_remaining(&pk);
	if ((int64_t)c != cursor) {
		fail("consumed-wrong", "rf_pack_consumed=%d, sum of requested sizes=%" PRId64 " after %s", c, cursor, names[op]);
		return;
	}
	if ((int64_t)rem != (int64_t)S - cursor) {
		fail("remaining-wrong", "rf_pack_remaining=%d, expected %" PRId64 " after %s", rem, (int64_t)S - cursor, names[op]);
		return;
	}
	VH_COUNT("calls_compared");
}

static void put_le(int64_t at, uint32_t v, int n)
{
	for (int i = 0; i < n; i++)
		model[at + i] = (uint8_t)(v >> (8 * i));
}
static void put_be(int64_t at, uint32_t v, int n)
{
	for (int i = 0; i < n; i++)
		model[at + i] = (uint8_t)(v >> (8 * (n - 1 - i)));
}
static uint32_t get_le(int64_t at, int n)
{
	uint32_t v = 0;
	for (int i = 0; i < n; i++)
		v |= (uint32_t)model[at + i] << (8 * i);
	return v;
}

/* one operation with given argument; sz only for the *_bytes operations */
static void do_op(int op, uint32_t val, size_t sz, bool null_arg, vh_rng_t *r)
{
	if (failed)
		return;
	int64_t at = cursor;
	char clause[96];
	switch (op) {
	case P_BYTES: {
		uint8_t *src = NULL;
		if (!null_arg) {
			src = malloc(sz ? sz : 1);
			for (size_t i = 0; i < sz; i++)
				src[i] = (uint8_t)vh_next(r);
		}
		vh_sb_add(&trace, "pack_bytes(%s,%zu) ", null_arg ? "NULL" : "src", sz);
		bool fits = model_fits(sz);
		if (fits)
			for (size_t i = 0; i < sz; i++)
				model[at + (int64_t)i] = src ? src[i] : 0;
		/* source is exactly sized only when it will really be read; when the
		 * item does not fit the library must not touch it at all */
		rf_pack_bytes(&pk, src, (unsigned)sz);
		free(src);
		break;
	}
	case P_S16LE:
		vh_sb_add(&trace, "pack_s16le(%d) ", (int16_t)val);
		if (model_fits(2))
			put_le(at, val & 0xffff, 2);
		rf_pack_s16le(&pk, (int16_t)val);
		break;
	case P_U16BE:
		vh_sb_add(&trace, "pack_u16be(0x%04x) ", val & 0xffff);
		if (model_fits(2))
			put_be(at, val & 0xffff, 2);
		rf_pack_u16be(&pk, (uint16_t)val);
		break;
	case P_U16LE:
		vh_sb_add(&trace, "pack_u16le(0x%04x) ", val & 0xffff);
		if (model_fits(2))
			put_le(at, val & 0xffff, 2);
		rf_pack_u16le(&pk, (uint16_t)val);
		break;
	case P_S32LE:
		vh_sb_add(&trace, "pack_s32le(%d) ", (int32_t)val);
		if (model_fits(4))
			put_le(at, val, 4);
		rf_pack_s32le(&pk, (int32_t)val);
		break;
	case P_U32LE:
		vh_sb_add(&trace, "pack_u32le(0x%08x) ", val);
		if (model_fits(4))
			put_le(at, val, 4);
		rf_pack_u32le(&pk, val);
		break;
	case U_BYTES: {
		uint8_t *dst = NULL;
		if (!null_arg) {
			dst = malloc(sz ? sz : 1);
			memset(dst, 0xa5, sz);
		}
		vh_sb_add(&trace, "unpack_bytes(%s,%zu) ", null_arg ? "NULL" : "dst", sz);
		bool fits = model_fits(sz);
		rf_unpack_bytes(&pk, dst, (unsigned)sz);
		if (dst) {
			for (size_t i = 0; i < sz; i++) {
				uint8_t want = fits ? model[at + (int64_t)i] : 0;
				if (dst[i] != want) {
					snprintf(clause, sizeof(clause), "unpack_bytes:%s", fits ? "wrong-bytes" : "output-not-zero-filled");
					fail(clause, "destination byte %zu is 0x%02x, expected 0x%02x (item at offset %" PRId64 ", %s)", i, dst[i],
					     want, at, fits ? "fits" : "does not fit");
					break;
				}
			}
			free(dst);
		}
		break;
	}
	case U_CHAR:
	case U_S8:
	case U_U8: {
		vh_sb_add(&trace, "%s() ", names[op]);
		bool fits = model_fits(1);
		long got, want;
		if (op == U_CHAR) {
			got = (long)rf_unpack_char(&pk);
			want = fits ? (long)(char)model[at] : 0;
		} else if (op == U_S8) {
			got = (long)rf_unpack_s8(&pk);
			want = fits ? (long)(int8_t)model[at] : 0;
		} else {
			got = (long)rf_unpack_u8(&pk);
			want = fits ? (long)model[at] : 0;
		}
		if (got != want) {
			snprintf(clause, sizeof(clause), "%s:%s", names[op], fits ? "wrong-value" : "nonzero-when-not-fitting");
			fail(clause, "returned %ld, expected %ld (offset %" PRId64 ", %s)", got, want, at, fits ? "fits" : "does not fit");
		}
		break;
	}
	case U_U16LE: {
		vh_sb_add(&trace, "unpack_u16le() ");
		bool fits = model_fits(2);
		uint32_t got = rf_unpack_u16le(&pk), want = fits ? get_le(at, 2) : 0;
		if (got != want) {
			snprintf(clause, sizeof(clause), "unpack_u16le:%s", fits ? "wrong-value" : "nonzero-when-not-fitting");
			fail(clause, "returned 0x%x, expected 0x%x (offset %" PRId64 ")", got, want, at);
		}
		break;
	}
	case U_U32LE: {
		vh_sb_add(&trace, "unpack_u32le() ");
		bool fits = model_fits(4);
		uint32_t got = rf_unpack_u32le(&pk), want = fits ? get_le(at, 4) : 0;
		if (got != want) {
			snprintf(clause, sizeof(clause), "unpack_u32le:%s", fits ? "wrong-value" : "nonzero-when-not-fitting");
			fail(clause, "returned 0x%x, expected 0x%x (offset %" PRId64 ")", got, want, at);
		}
		break;
	}
	}
	vh_case_desc("size %zu: %s", S, trace.b);
	check_after(op);
}

static uint32_t interesting32(vh_rng_t *r)
{
	switch (vh_below(r, 8)) {
	case 0: return 0xffu << (8 * vh_below(r, 4));
	case 1: return 1u << vh_below(r, 32);
	case 2: return 0x80000000u - vh_below(r, 2);
	case 3: return 0x7f80u + vh_below(r, 0x100);
	case 4: return 0x01020304u;
	case 5: return 0xfffefdfcu;
	default: return (uint32_t)vh_next(r);
	}
}

static void hist_case(long long c)
{
	vh_rng_t r;
	vh_rng_seed(&r, vh_opt.seed, 12, (uint64_t)c);
	char key[64];
	snprintf(key, sizeof(key), "hist:case=%lld", c);
	vh_case_key(key);
	vh_case_replay("--extra hist --only-case %lld", c);
	start((size_t)(c % 41), &r);
	int nops = 1 + (int)vh_below(&r, 24);
	int style = (int)vh_below(&r, 3); /* 0 pack only, 1 unpack only, 2 mixed */
	for (int i = 0; i < nops && !failed; i++) {
		int op;
		if (style == 0)
			op = (int)vh_below(&r, 6);
		else if (style == 1)
			op = 6 + (int)vh_below(&r, 6);
		else
			op = (int)vh_below(&r, NOPS);
		size_t sz = vh_below(&r, 9);
		uint32_t x = vh_below(&r, 40);
		if (x == 0)
			sz = S; /* whole buffer */
		else if (x == 1 && cursor <= (int64_t)S)
			sz = (size_t)((int64_t)S - cursor); /* exactly to the end */
		else if (x == 2 && cursor <= (int64_t)S)
			sz = (size_t)((int64_t)S - cursor) + 1; /* one too many */
		else if (x == 3)
			sz = 1000 + vh_below(&r, 1u << 20); /* far beyond */
		bool null_arg = vh_below(&r, 5) == 0;
		if (sz > 64 && !null_arg && (op == P_BYTES || op == U_BYTES) && sz > S + 8)
			null_arg = vh_below(&r, 2); /* keep big real arrays occasional */
		do_op(op, interesting32(&r), sz, null_arg, &r);
	}
	vh_evaluations++;
	VH_COUNT("operation_strings");
	if (flags & F_EXACT_FIT)
		VH_COUNT("strings_with_exact_fit_at_end");
	if (flags & F_OVERFLOW_INSIDE)
		VH_COUNT("strings_overflowing_from_inside_the_buffer");
	if ((flags & F_OVERFLOW_INSIDE) && (flags & F_SMALLER_AFTER)) {
		uint64_t h = 12;
		for (int i = 0; i < trace.n; i++)
			h = vh_mix(h, (unsigned char)trace.b[i]);
		vh_distinct(vh_mix(h, S));
		VH_COUNT("strings_nontrivial");
		if (vh_want_sample() && nops < 10)
			vh_sample("size %zu: %s", S, trace.b);
	}
}

/* exhaustive 16-bit values, 32-bit patterns, round trips */
static void vals(void)
{
	vh_rng_t r;
	vh_rng_seed(&r, vh_opt.seed, 112, (uint64_t)vh_opt.proc);
	vh_case_key("vals");
		vh_case_budget(900);
	vh_case_replay("--extra vals");
	/* 16-bit: every value, at offsets 0..2 of a small buffer, both fits and off-by-one */
	for (uint32_t v = (uint32_t)vh_opt.proc; v < 65536 && !failed; v += (uint32_t)vh_opt.nproc) {
		for (int op = P_S16LE; op <= P_U16LE && !failed; op++) {
			start(5, &r);
			do_op(P_BYTES, 0, v % 3, false, &r);
			do_op(op, v, 0, false, &r);
			do_op(op, v ^ 0xffff, 0, false, &r);
			do_op(op, v, 0, false, &r); /* crosses the end for some offsets */
			VH_COUNT("values16_packed");
		}
		/* unpack: buffer holds the two bytes of v in both orders */
		start(4, &r);
		model[0] = buf[0] = (uint8_t)v;
		model[1] = buf[1] = (uint8_t)(v >> 8);
		model[2] = buf[2] = (uint8_t)(v >> 8);
		model[3] = buf[3] = (uint8_t)v;
		do_op(U_U16LE, 0, 0, false, &r);
		do_op(U_U16LE, 0, 0, false, &r);
		do_op(U_U16LE, 0, 0, false, &r);
		VH_COUNT("values16_unpacked");
		/* round trip through the signed packer */
		start(2, &r);
		rf_pack_s16le(&pk, (int16_t)v);
		rf_pack_t up;
		rf_pack_init(&up, buf, 2);
		uint16_t back = rf_unpack_u16le(&up);
		if (back != (uint16_t)v) {
			vh_sb_add(&trace, "pack_s16le(%d) then unpack_u16le ", (int16_t)v);
			fail("round-trip-16", "packed 0x%04x, unpacked 0x%04x", v, back);
		}
		vh_evaluations += 3;
	}
	/* single-byte readers: every byte value */
	for (int b = 0; b < 256 && !failed; b++) {
		start(3, &r);
		model[0] = buf[0] = model[1] = buf[1] = model[2] = buf[2] = (uint8_t)b;
		do_op(U_CHAR, 0, 0, false, &r);
		do_op(U_S8, 0, 0, false, &r);
		do_op(U_U8, 0, 0, false, &r);
		do_op(U_U8, 0, 0, false, &r);
		do_op(U_S8, 0, 0, false, &r);
		do_op(U_CHAR, 0, 0, false, &r);
	}
	/* 32-bit patterns */
	long long n32 = vh_opt.thorough ? 2000000 : 200000;
	for (long long i = vh_opt.proc; i < n32 && !failed; i += vh_opt.nproc) {
		uint32_t v;
		if (i < 1024)
			v = (uint32_t)(i & 0xff) << (8 * ((i >> 8) & 3)); /* all single-byte patterns */
		else if (i < 1024 + 32)
			v = 1u << (i - 1024);
		else
			v = interesting32(&r);
		start(9, &r);
		do_op(P_BYTES, 0, (size_t)(i % 7), (i & 8) != 0, &r);
		do_op(i & 1 ? P_U32LE : P_S32LE, v, 0, false, &r);
		do_op(i & 2 ? P_U32LE : P_S32LE, ~v, 0, false, &r);
		/* read back what is there */
		rf_pack_init(&pk, buf, (unsigned)S);
		cursor = 0;
		overflowed = false;
		do_op(U_BYTES, 0, (size_t)(i % 7), (i & 4) != 0, &r);
		do_op(U_U32LE, 0, 0, false, &r);
		do_op(U_U32LE, 0, 0, false, &r);
		do_op(U_U32LE, 0, 0, false, &r);
		VH_COUNT("values32_round_trips");
		vh_evaluations++;
		if (i < 1024 + 32)
			vh_distinct(vh_mix(0x3232, v));
	}
	if (vh_opt.proc == 0)
		vh_sample("vals: e.g. pack_u16be(0x1234) at offset 1 of 5 bytes, then unpack; all 65536 values per 16-bit op");
}

int main(int argc, char **argv)
{
	vh_init(argc, argv, "pack");
	const char *mode = vh_opt.extra ? vh_opt.extra : "hist";
	if (!strcmp(mode, "vals")) {
		vals();
	} else {
		long long n = vh_opt.cases ? vh_opt.cases : (vh_opt.thorough ? 20000000 : 400000);
		for (long long c = vh_opt.proc; c < n; c += vh_opt.nproc) {
			if (vh_opt.only_case >= 0 && c != vh_opt.only_case)
				continue;
			hist_case(c);
			if (vh_nviol >= 8)
				break;
		}
	}
	return vh_finish();
}

/*
 * C19 - rotary encoder: count == net detent crossings, count14 == latched
 * position mod 2^14, for any signal sequence.
 *
 * Oracle (from the statement, independent of the implementation): position P
 * (64-bit) moves +1 on each clockwise and -1 on each anticlockwise single-bit
 * Gray transition, otherwise unchanged; L = P as of the most recent decode call
 * whose state was the detent (0).  After every rotenc_decode:
 *     rotenc_count   == floor(L/4) mod 256
 *     rotenc_count14 == floor(L/4) mod 2^14
 * and on histories with no invalid jump both are within one click of floor(P/4).
 *
 * The decoder is driven through its API only (plus opaque struct copies to
 * snapshot/restore), so the harness survives a change of the structure layout.
 *
 * stage "sweep": walks the model state space: every reachable latch position
 *   L in [-4096, 65536+4096) quarter steps, every live offset d = P - L within
 *   +-1024 quarter steps (+-256 clicks) reachable without resting at the detent
 *   (via invalid jumps), every last_state, every next state.
 * stage "walk": long random walks with bounce, dwell and invalid jumps.
 */
#include "vh.h"

#include <librfn/rotenc.h>

/* ----- reference model ----- */
typedef struct {
	int64_t P, L;
	int last;
	int jumps; /* invalid jumps so far */
} model_t;

static int gray_index(int s)
{
	switch (s & 3) {
	case 0: return 0;
	case 1: return 1;
	case 3: return 2;
	default: return 3;
	}
}
static const int gray_state[4] = { 0, 1, 3, 2 };

static void model_step(model_t *m, int s)
{
	int d = (gray_index(s) - gray_index(m->last)) & 3;
	if (d == 1)
		m->P++;
	else if (d == 3)
		m->P--;
	else if (d == 2)
		m->jumps++;
	m->last = s;
	if (s == 0)
		m->L = m->P;
}
static inline int64_t floordiv4(int64_t x)
{
	return (x >= 0) ? x / 4 : -((-x + 3) / 4);
}

static uint64_t nontrivial;

/* apply one step to both, compare; returns false on violation */
static bool step_check(rotenc_t *r, model_t *m, int s, const char *stage)
{
	int64_t P0 = m->P, L0 = m->L;
	int last0 = m->last;
	rotenc_decode(r, (uint8_t)s);
	model_step(m, s);
	unsigned c8 = rotenc_count(r);
	unsigned c14 = rotenc_count14(r);
	unsigned e8 = (unsigned)(floordiv4(m->L) & 0xff);
	unsigned e14 = (unsigned)(floordiv4(m->L) & 0x3fff);
	vh_evaluations++;
	if (m->P != m->L || (floordiv4(m->P) & 0xff) == 0 || (floordiv4(m->P) & 0xff) == 0xff)
		nontrivial++;
	if (c8 != e8 || c14 != e14 || (c14 & 0xff) != c8) {
		char key[200];
		const char *clause = c8 != e8 ? "count8-vs-latched" :
				     c14 != e14 ? "count14-vs-latched" : "low-bytes-disagree";
		bool hi_differs = (floordiv4(m->P) >> 8) != (floordiv4(m->L) >> 8);
		snprintf(key, sizeof(key), "%s:%s", clause,
			 hi_differs ? "live-and-latched-positions-differ-above-bit-7" :
				      "live-and-latched-positions-agree-above-bit-7");
		vh_violation(key, "",
			     "%s: before: last_state=%d P=%" PRId64 " (internal 0x%04x) latched L=%" PRId64
			     " (click %" PRId64 "); decode(%d) -> P=%" PRId64 " L=%" PRId64
			     "; rotenc_count=%u expected %u; rotenc_count14=%u expected %u",
			     stage, last0, P0, (unsigned)(P0 & 0xffff), L0, floordiv4(L0), s, m->P, m->L,
			     c8, e8, c14, e14);
		return false;
	}
	if (m->jumps == 0) {
		/* consequence clause: within one click of the true position */
		unsigned t14 = (unsigned)(floordiv4(m->P) & 0x3fff);
		unsigned diff = (c14 - t14) & 0x3fff;
		if (!(diff == 0 || diff == 1 || diff == 0x3fff)) {
			vh_violation("more-than-one-click-from-true-position", "",
				     "P=%" PRId64 " L=%" PRId64 " count14=%u true=%u", m->P, m->L, c14, t14);
			return false;
		}
	}
	return true;
}

/* test the four successors of the current state without disturbing it */
static void probe_all(rotenc_t *r, model_t *m)
{
	for (int ns = 0; ns < 4; ns++) {
		rotenc_t rc;
		model_t mc = *m;
		memcpy(&rc, r, sizeof(rc));
		step_check(&rc, &mc, ns, "sweep");
	}
	VH_COUNT("model_states_probed");
}

static void sweep(void)
{
	/* latch positions: all L = 0 or 2 mod 4 (the reachable ones) in range;
	 * split over processes by contiguous chunks */
	const int64_t LMIN = -4096, LMAX = 65536 + 4096;
	int64_t total = (LMAX - LMIN) / 2;
	int64_t per = (total + vh_opt.nproc - 1) / vh_opt.nproc;
	int64_t i0 = vh_opt.proc * per, i1 = i0 + per;
	if (i1 > total)
		i1 = total;
	int64_t Lfirst = LMIN + 2 * i0;

	rotenc_t r = ROTENC_VAR_INIT;
	model_t m = { 0, 0, 0, 0 };

	vh_case_key("sweep-walk-to-start");
		vh_case_budget(300);
	/* reach (state 0, P == Lfirst): whole clicks by valid steps, then a
	 * half click through an invalid jump if needed */
	int dir = Lfirst >= 0 ? 1 : -1;
	while ((dir > 0 && m.P + 4 <= Lfirst) || (dir < 0 && m.P - 4 >= Lfirst)) {
		for (int k = 0; k < 4; k++) {
			int g = (gray_index(m.last) + (dir > 0 ? 1 : 3)) & 3;
			if (!step_check(&r, &m, gray_state[g], "sweep"))
				return;
		}
	}
	while (m.P != Lfirst) {
		/* +2 : 0->1 (+1), jump 1->2, 2->0 (+1) ;  -2 : 0->2 (-1), jump 2->1, 1->0 (-1) */
		if (m.P < Lfirst) {
			step_check(&r, &m, 1, "sweep");
			step_check(&r, &m, 2, "sweep");
			step_check(&r, &m, 0, "sweep");
		} else {
			step_check(&r, &m, 2, "sweep");
			step_check(&r, &m, 1, "sweep");
			step_check(&r, &m, 0, "sweep");
		}
	}

	for (int64_t i = i0; i < i1; i++) {
		int64_t L = LMIN + 2 * i;
		if (m.P != L || m.L != L || m.last != 0) {
			vh_violation("harness-internal", "", "walk lost track P=%" PRId64 " L=%" PRId64, m.P, L);
			return;
		}
		char key[64];
		snprintf(key, sizeof(key), "sweep:L=%" PRId64, L);
		vh_case_key(key);
		probe_all(&r, &m);
		VH_COUNT("latch_positions");

		/* walk away from the detent in both directions without ever resting
		 * at state 0:  cw: 0->1, then (1->3, 3->2, jump 2->1)* ;
		 *              acw: 0->2, then (2->3, 3->1, jump 1->2)*   */
		for (int d = 0; d < 2; d++) {
			rotenc_t rc;
			model_t mc = m;
			memcpy(&rc, &r, sizeof(rc));
			static const int cw[3] = { 3, 2, 1 }, acw[3] = { 3, 1, 2 };
			const int *cyc = d ? acw : cw;
			step_check(&rc, &mc, d ? 2 : 1, "sweep");
			probe_all(&rc, &mc);
			int k = 0;
			while (llabs(mc.P - mc.L) < 1024) {
				step_check(&rc, &mc, cyc[k], "sweep");
				k = (k + 1) % 3;
				probe_all(&rc, &mc);
			}
		}
		if (vh_nviol >= VH_MAX_VIOL)
			break;
		/* advance latch position by +2 */
		step_check(&r, &m, 1, "sweep");
		step_check(&r, &m, 2, "sweep");
		step_check(&r, &m, 0, "sweep");
	}
	vh_exhaustive = 1;
}

static void walks(void)
{
	long long ncases = vh_opt.cases ? vh_opt.cases : (vh_opt.thorough ? 400 : 40);
	long long steps = vh_opt.thorough ? 2000000 : 300000;
	for (long long c = vh_opt.proc; c < ncases; c += vh_opt.nproc) {
		if (vh_opt.only_case >= 0 && c != vh_opt.only_case)
			continue;
		vh_rng_t rng;
		vh_rng_seed(&rng, vh_opt.seed, 19, (uint64_t)c);
		rotenc_t r = ROTENC_VAR_INIT;
		model_t m = { 0, 0, 0, 0 };
		char key[64];
		snprintf(key, sizeof(key), "walk:case=%lld", c);
		vh_case_key(key);
		vh_case_replay("--extra walk --only-case %lld", c);
		vh_case_budget(600);
		int allow_jumps = (c % 3) != 0;
		int drift = (int)vh_below(&rng, 3) - 1; /* -1,0,+1 */
		int64_t minP = 0, maxP = 0;
		vh_sb_t sb;
		vh_sb_reset(&sb);
		vh_sb_add(&sb, "walk case %lld jumps=%d drift=%d first states:", c, allow_jumps, drift);
		for (long long s = 0; s < steps; s++) {
			uint32_t x = vh_below(&rng, 100);
			int g = gray_index(m.last), ns;
			if (x < 8)
				ns = m.last; /* dwell */
			else if (allow_jumps && x < 10)
				ns = gray_state[(g + 2) & 3];
			else if (x < 30) /* bounce: step one way, and usually straight back */
				ns = gray_state[(g + (vh_below(&rng, 2) ? 1 : 3)) & 3];
			else {
				int fwd = drift > 0 ? 1 : drift < 0 ? 0 : (int)vh_below(&rng, 2);
				if (vh_below(&rng, 1000) < 2)
					drift = (int)vh_below(&rng, 3) - 1;
				ns = gray_state[(g + (fwd ? 1 : 3)) & 3];
			}
			if (s < 40)
				vh_sb_add(&sb, " %d", ns);
			if (!step_check(&r, &m, ns, "walk"))
				break;
			if (m.P < minP)
				minP = m.P;
			if (m.P > maxP)
				maxP = m.P;
		}
		if (maxP >= 65536 || minP < 0)
			VH_COUNT("walks_crossing_16bit_wrap");
		if (maxP >= 1024 || minP <= -1024)
			VH_COUNT("walks_crossing_8bit_click_wrap");
		VH_COUNT("walks");
		uint64_t sig = vh_mix(vh_mix(c, (uint64_t)maxP), (uint64_t)minP);
		vh_distinct(sig);
		vh_sb_add(&sb, " ... minP=%" PRId64 " maxP=%" PRId64 " jumps=%d", minP, maxP, m.jumps);
		vh_sample("%s", sb.b);
	}
}

int main(int argc, char **argv)
{
	vh_init(argc, argv, "rotenc");
	if (vh_opt.extra && !strcmp(vh_opt.extra, "walk"))
		walks();
	else {
		sweep();
		vh_sample("sweep: for each latch position L (every reachable value, step 2 quarter steps) and each "
			  "live offset d=P-L in +-1024 reached via 0->1,(1->3,3->2,jump 2->1)* and the mirror image, "
			  "all four next states were applied to a copy and both counters compared with the model");
	}
	VH_COUNT_N("__distinct_exact", vh_opt.extra && !strcmp(vh_opt.extra, "walk") ? 0 : nontrivial);
	VH_COUNT_N("nontrivial_transitions(live!=latched or at a 256-click boundary)", nontrivial);
	return vh_finish();
}

/*
 * C07 (and the real-thread legs of C04/C05/C06) - the three supported
 * concurrent usage patterns with real pthreads.
 *
 * Built twice: with the genuine ThreadSanitizer (-fsanitize=thread: the
 * oracle for C07 is TSan's happens-before race detection, reports are
 * collected from its log by the driver) and with ASan+UBSan (memory safety of
 * the same paths).  In both builds cheap functional oracles run as well:
 * ring bytes arrive as the exact produced sequence; every message/event is
 * received exactly once, intact, per sender in order.
 *
 * The harness adds no synchronisation of its own between the parties (payload
 * accesses are plain on purpose, counters are thread-local until join), so that
 * only librfn's own atomics order the hand-offs.
 *
 * --extra ring | mq | fibre
 */
#include "vh.h"

#include <errno.h>
#include <pthread.h>
#include <sched.h>
#include <librfn/atomic.h> /* <stdatomic.h>, or librfn's own fallback macros when built with -D__STDC_NO_ATOMICS__ */

#include <librfn/fibre.h>
#include <librfn/messageq.h>
#include <librfn/ringbuf.h>

void fibre_verif_reset(void);

static uint64_t seedmix;
static inline uint8_t byte_of(uint64_t k) { return (uint8_t)((k * 167u + (k >> 8) * 13u + seedmix) & 0xff); }

/* ------------------------------------------------------------------ ring */
static ringbuf_t rb;
static uint64_t ring_n;
static uint64_t prod_fail, cons_empty;
static int ring_err;

static void *ring_producer(void *a)
{
	(void)a;
	uint64_t fails = 0;
	for (uint64_t k = 0; k < ring_n; k++) {
		if (k % 3 == 0) {
			ringbuf_putchar(&rb, (char)byte_of(k));
		} else {
			while (!ringbuf_put(&rb, byte_of(k))) {
				fails++;
				if ((fails & 63) == 0)
					sched_yield();
			}
		}
	}
	prod_fail = fails;
	return NULL;
}
static void *ring_consumer(void *a)
{
	(void)a;
	uint64_t empties = 0;
	for (uint64_t k = 0; k < ring_n;) {
		if ((k & 7) == 3 && ringbuf_empty(&rb)) {
			empties++;
			continue;
		}
		int c = ringbuf_get(&rb);
		if (c < 0) {
			empties++;
			if ((empties & 63) == 0)
				sched_yield();
			continue;
		}
		if (c > 255 || (uint8_t)c != byte_of(k)) {
			ring_err = 1;
			vh_violation("ring:byte-sequence-differs", vh_cur_replay, "byte %" PRIu64 " read as %d, produced %u (buf_len %zu)", k, c,
				     byte_of(k), rb.buf_len);
			return NULL;
		}
		k++;
	}
	cons_empty = empties;
	return NULL;
}
static void ring_round(size_t buf_len, uint64_t n, unsigned start)
{
	uint8_t *store = malloc(buf_len);
	ringbuf_init(&rb, store, buf_len);
	/* start somewhere in the ring (indices are public fields) */
	atomic_store(&rb.readi, start % buf_len);
	atomic_store(&rb.writei, start % buf_len);
	ring_n = n;
	ring_err = 0;
	char key[64];
	snprintf(key, sizeof(key), "ring:len=%zu", buf_len);
	vh_case_key(key);
	vh_case_budget(300);
	vh_case_desc("SPSC ring, buf_len %zu, %" PRIu64 " bytes, start index %u", buf_len, n, start % (unsigned)buf_len);
	pthread_t p, c;
	pthread_create(&c, NULL, ring_consumer, NULL);
	pthread_create(&p, NULL, ring_producer, NULL);
	pthread_join(p, NULL);
	pthread_join(c, NULL);
	vh_evaluations++;
	VH_COUNT_N("ring_bytes_handed_over", n);
	VH_COUNT_N("ring_put_refusals(full)", prod_fail);
	VH_COUNT_N("ring_get_empty", cons_empty);
	VH_COUNT("ring_rounds");
	if (vh_want_sample())
		vh_sample("SPSC ring buf_len %zu start %u: %" PRIu64 " bytes handed over, %" PRIu64 " refused puts, %" PRIu64 " empty gets", buf_len,
			  start % (unsigned)buf_len, n, prod_fail, cons_empty);
	vh_distinct(vh_mix(vh_mix(0x51, buf_len), prod_fail * 1000003 + cons_empty));
	free(store);
}

/* ------------------------------------------------------------------- mq */
typedef struct {
	uint32_t sender, seq;
	uint32_t body[5];
	uint32_t check;
} msg_t;
static messageq_t mq;
static int mq_senders, mq_per;
static uint64_t mq_nullclaims[16];

static void *mq_sender(void *a)
{
	int me = (int)(intptr_t)a;
	uint64_t nulls = 0;
	for (int k = 0; k < mq_per; k++) {
		msg_t *m;
		int streak = 0;
		while (!(m = messageq_claim(&mq))) {
			nulls++;
			if (++streak > 64) {
				usleep(100); /* queue stays full: let the receiver run */
				streak = 0;
			} else
				sched_yield();
		}
		m->sender = (uint32_t)me;
		m->seq = (uint32_t)k;
		for (int i = 0; i < 5; i++)
			m->body[i] = (uint32_t)(me * 1000003 + k * 31 + i);
		m->check = ~(m->sender * 65537u + m->seq);
		messageq_send(&mq, m);
	}
	mq_nullclaims[me] = nulls;
	return NULL;
}
static void *mq_receiver(void *a)
{
	(void)a;
	uint32_t next[16] = { 0 };
	int total = mq_senders * mq_per, got = 0;
	uint64_t spins = 0;
	while (got < total) {
		msg_t *m = messageq_receive(&mq);
		if (!m) {
			if ((++spins & 15) == 0)
				sched_yield();
			continue;
		}
		uint32_t s = m->sender, q = m->seq;
		bool ok = s < (uint32_t)mq_senders && m->check == ~(s * 65537u + q);
		for (int i = 0; ok && i < 5; i++)
			ok = m->body[i] == (uint32_t)(s * 1000003 + q * 31 + (uint32_t)i);
		if (!ok) {
			vh_violation("mq:received-contents-differ", vh_cur_replay, "message #%d: sender %u seq %u fails its checksum/body", got, s, q);
			return NULL;
		}
		if (q != next[s]) {
			vh_violation(q < next[s] ? "mq:message-duplicated-or-reordered" : "mq:message-lost-or-reordered", vh_cur_replay,
				     "from sender %u expected seq %u, received %u", s, next[s], q);
			return NULL;
		}
		next[s]++;
		got++;
		messageq_release(&mq, m);
	}
	return NULL;
}
static void mq_round(int depth, int senders, int per)
{
	msg_t *store = malloc(sizeof(msg_t) * (size_t)depth);
	messageq_init(&mq, store, sizeof(msg_t) * (size_t)depth, sizeof(msg_t));
	mq_senders = senders;
	mq_per = per;
	char key[64];
	snprintf(key, sizeof(key), "mq:depth=%d,senders=%d", depth, senders);
	vh_case_key(key);
	vh_case_budget(300);
	vh_case_desc("MPSC queue depth %d, %d sender threads x %d messages", depth, senders, per);
	pthread_t r, s[16];
	pthread_create(&r, NULL, mq_receiver, NULL);
	for (int i = 0; i < senders; i++)
		pthread_create(&s[i], NULL, mq_sender, (void *)(intptr_t)i);
	for (int i = 0; i < senders; i++)
		pthread_join(s[i], NULL);
	pthread_join(r, NULL);
	uint64_t nulls = 0;
	for (int i = 0; i < senders; i++)
		nulls += mq_nullclaims[i];
	vh_evaluations++;
	VH_COUNT_N("mq_messages_handed_over", (uint64_t)senders * (uint64_t)per);
	VH_COUNT_N("mq_claims_refused(full)", nulls);
	VH_COUNT("mq_rounds");
	if (vh_want_sample())
		vh_sample("MPSC queue depth %d, %d sender threads x %d messages: %" PRIu64 " claims refused while full", depth, senders, per, nulls);
	vh_distinct(vh_mix(vh_mix(0x52, (uint64_t)depth * 100 + (uint64_t)senders), nulls));
	/* free count at quiescence */
	int got = 0;
	while (got <= depth && messageq_claim(&mq))
		got++;
	if (got != depth)
		vh_violation("mq:free-count-at-quiescence", vh_cur_replay, "after all threads joined %d further claims succeeded on a queue of depth %d", got, depth);
	free(store);
}

/* ---------------------------------------------------------------- fibre */
typedef struct {
	uint32_t sender, seq, check;
} fev_t;
static fibre_eventq_t evH;
static fev_t evbuf[4];
static fibre_t fibA, fibB;
static int fb_senders, fb_per;
static uint32_t fb_next[16];
static int fb_got;
static unsigned workA, workB; /* accessed with relaxed __atomic builtins only: no happens-before from the harness */
static uint32_t accA[16], accB[16]; /* per sender thread: highest accepted value (thread-local until join) */
static uint32_t seenA, seenB;
static uint64_t fb_refused[16];

static int body_H(fibre_t *f)
{
	fev_t *e;
	PT_BEGIN_FIBRE(f);
	for (;;) {
		while ((e = fibre_eventq_receive(&evH)) != NULL) {
			uint32_t s = e->sender, q = e->seq;
			if (s >= (uint32_t)fb_senders || e->check != ~(s * 65537u + q))
				vh_violation("fibre:event-contents-differ", vh_cur_replay, "event #%d sender %u seq %u fails its checksum", fb_got, s, q);
			else if (q != fb_next[s])
				vh_violation("fibre:event-lost-duplicated-or-reordered", vh_cur_replay, "from sender %u expected seq %u, received %u", s,
					     fb_next[s], q);
			else
				fb_next[s]++;
			fb_got++;
			fibre_eventq_release(&evH, e);
		}
		PT_WAIT();
	}
	PT_END();
}
static int body_A(fibre_t *f)
{
	PT_BEGIN_FIBRE(f);
	for (;;) {
		seenA = __atomic_load_n(&workA, __ATOMIC_RELAXED);
		PT_YIELD();
		seenA = __atomic_load_n(&workA, __ATOMIC_RELAXED);
		PT_WAIT();
	}
	PT_END();
}
static int body_B(fibre_t *f)
{
	PT_BEGIN_FIBRE(f);
	for (;;) {
		seenB = __atomic_load_n(&workB, __ATOMIC_RELAXED);
		PT_WAIT();
	}
	PT_END();
}
static void *fb_sender(void *a)
{
	int me = (int)(intptr_t)a;
	uint64_t refused = 0;
	for (int k = 0; k < fb_per; k++) {
		fev_t *e;
		while (!(e = fibre_eventq_claim(&evH))) {
			refused++;
			sched_yield();
		}
		e->sender = (uint32_t)me;
		e->seq = (uint32_t)k;
		e->check = ~(e->sender * 65537u + e->seq);
		(void)fibre_eventq_send(&evH, e);
		if (k % 3 == 0) {
			uint32_t v = __atomic_fetch_add(&workA, 1, __ATOMIC_RELAXED) + 1;
			if (fibre_run_atomic(&fibA)) {
				if (v > accA[me])
					accA[me] = v;
			} else
				refused++;
		}
		if (k % 5 == 0) {
			uint32_t v = __atomic_fetch_add(&workB, 1, __ATOMIC_RELAXED) + 1;
			if (fibre_run_atomic(&fibB)) {
				if (v > accB[me])
					accB[me] = v;
			} else
				refused++;
		}
	}
	fb_refused[me] = refused;
	return NULL;
}
static void fibre_round(int senders, int per)
{
	fibre_verif_reset();
	fibre_eventq_init(&evH, body_H, evbuf, sizeof(evbuf), sizeof(evbuf[0]));
	fibre_init(&fibA, body_A);
	fibre_init(&fibB, body_B);
	fb_senders = senders;
	fb_per = per;
	fb_got = 0;
	memset(fb_next, 0, sizeof(fb_next));
	memset(accA, 0, sizeof(accA));
	memset(accB, 0, sizeof(accB));
	seenA = seenB = 0;
	__atomic_store_n(&workA, 0, __ATOMIC_RELAXED);
	__atomic_store_n(&workB, 0, __ATOMIC_RELAXED);
	char key[64];
	snprintf(key, sizeof(key), "fibre:senders=%d", senders);
	vh_case_key(key);
	vh_case_budget(300);
	vh_case_desc("%d threads posting events and wake-ups against the main-context scheduler, %d each", senders, per);
	pthread_t s[16];
	for (int i = 0; i < senders; i++)
		pthread_create(&s[i], NULL, fb_sender, (void *)(intptr_t)i);
	int total = senders * per;
	uint32_t t = 0;
	uint64_t passes = 0;
	while (fb_got < total && vh_nviol == 0) {
		fibre_scheduler_next(t++);
		passes++;
		if ((passes & 255) == 0)
			fibre_run(&evH.fibre); /* a send may legitimately have been refused a wake-up slot */
		if ((passes & 15) == 0)
			sched_yield();
		if (passes > 400000000ull)
			break;
	}
	for (int i = 0; i < senders; i++)
		pthread_join(s[i], NULL);
	/* quiescence: a few more passes, then the accepted wake-ups must have been observed */
	for (int i = 0; i < 12; i++)
		fibre_scheduler_next(t++);
	uint32_t needA = 0, needB = 0;
	uint64_t refused = 0;
	for (int i = 0; i < senders; i++) {
		if (accA[i] > needA)
			needA = accA[i];
		if (accB[i] > needB)
			needB = accB[i];
		refused += fb_refused[i];
	}
	if (vh_nviol == 0 && fb_got != total)
		vh_violation("fibre:event-lost", vh_cur_replay, "%d events were sent, %d received", total, fb_got);
	if (vh_nviol == 0 && (seenA < needA || seenB < needB))
		vh_violation("fibre:accepted-wakeup-never-observed", vh_cur_replay, "fibre A saw %u of %u, fibre B saw %u of %u accepted wake-ups", seenA, needA,
			     seenB, needB);
	vh_evaluations++;
	VH_COUNT_N("fibre_events_handed_over", (uint64_t)fb_got);
	VH_COUNT_N("fibre_scheduler_passes", passes);
	VH_COUNT_N("fibre_claims_or_requests_refused", refused);
	VH_COUNT("fibre_rounds");
	if (vh_want_sample())
		vh_sample("%d threads x %d events + wake-ups against the scheduler: %" PRIu64 " passes, %" PRIu64 " refused claims/requests, A saw %u/%u, B saw %u/%u",
			  senders, per, passes, refused, seenA, needA, seenB, needB);
	vh_distinct(vh_mix(vh_mix(0x53, (uint64_t)senders), passes));
}

/* ------------------------------------------------------- real asynchronous interrupts (engine E4) */
/* Two POSIX interval timers deliver SIGUSR1 and SIGUSR2 at pseudo-random sub-millisecond intervals to the one
 * thread that runs the scheduler; SIGUSR2 is not masked while SIGUSR1's handler runs, so the handlers nest.  Each
 * handler posts at most one event (never spinning: a refused claim is retried at the next signal) and some wake-ups.
 * Preemption is at true instruction granularity; the oracle is the same quiescence oracle as in the thread rounds. */
#include <signal.h>
#include <time.h>
static timer_t sig_timer[2];
static volatile int sig_k[2];
static volatile int sig_done[2];
static volatile uint64_t sig_count[2], sig_nested;
static volatile int sig_depth;
static uint32_t sig_lcg[2];

static void sig_arm(int me)
{
	sig_lcg[me] = sig_lcg[me] * 1664525u + 1013904223u;
	struct itimerspec its;
	memset(&its, 0, sizeof(its));
	its.it_value.tv_nsec = 15000 + (long)((sig_lcg[me] >> 12) % 250000); /* 15..265 us */
	timer_settime(sig_timer[me], 0, &its, NULL);
}
static void on_signal(int sig)
{
	int me = sig == SIGUSR1 ? 0 : 1;
	int saved_errno = errno;
	sig_depth++;
	if (sig_depth > 1)
		sig_nested++;
	sig_count[me]++;
	int k = sig_k[me];
	if (k < fb_per) {
		fev_t *e = fibre_eventq_claim(&evH);
		if (e) {
			e->sender = (uint32_t)me;
			e->seq = (uint32_t)k;
			e->check = ~(e->sender * 65537u + e->seq);
			(void)fibre_eventq_send(&evH, e);
			sig_k[me] = k + 1;
			if (k % 3 == 0) {
				uint32_t v = __atomic_fetch_add(&workA, 1, __ATOMIC_RELAXED) + 1;
				if (fibre_run_atomic(&fibA) && v > accA[me])
					accA[me] = v;
			}
			if (k % 5 == 0) {
				uint32_t v = __atomic_fetch_add(&workB, 1, __ATOMIC_RELAXED) + 1;
				if (fibre_run_atomic(&fibB) && v > accB[me])
					accB[me] = v;
			}
		}
		sig_arm(me);
	} else {
		sig_done[me] = 1;
	}
	sig_depth--;
	errno = saved_errno;
}
static void signal_round(int per)
{
	fibre_verif_reset();
	fibre_eventq_init(&evH, body_H, evbuf, sizeof(evbuf), sizeof(evbuf[0]));
	fibre_init(&fibA, body_A);
	fibre_init(&fibB, body_B);
	fb_senders = 2;
	fb_per = per;
	fb_got = 0;
	memset(fb_next, 0, sizeof(fb_next));
	memset(accA, 0, sizeof(accA));
	memset(accB, 0, sizeof(accB));
	seenA = seenB = 0;
	__atomic_store_n(&workA, 0, __ATOMIC_RELAXED);
	__atomic_store_n(&workB, 0, __ATOMIC_RELAXED);
	vh_case_key("signals");
	vh_case_budget(600);
	vh_case_desc("two nested interval-timer signals posting %d events each against the main-context scheduler", per);
	struct sigaction sa;
	memset(&sa, 0, sizeof(sa));
	sa.sa_handler = on_signal;
	sigemptyset(&sa.sa_mask); /* the other signal is NOT masked: handlers nest */
	sa.sa_flags = SA_RESTART;
	sigaction(SIGUSR1, &sa, NULL);
	sigaction(SIGUSR2, &sa, NULL);
	for (int i = 0; i < 2; i++) {
		struct sigevent sev;
		memset(&sev, 0, sizeof(sev));
		sev.sigev_notify = SIGEV_SIGNAL;
		sev.sigev_signo = i ? SIGUSR2 : SIGUSR1;
		timer_create(CLOCK_MONOTONIC, &sev, &sig_timer[i]);
		sig_k[i] = 0;
		sig_done[i] = 0;
		sig_count[i] = 0;
		sig_lcg[i] = (uint32_t)(vh_opt.seed * 977u + (uint32_t)i * 131071u + 7u);
	}
	sig_nested = 0;
	sig_arm(0);
	sig_arm(1);
	int total = 2 * per;
	uint32_t t = 0;
	uint64_t passes = 0;
	while ((fb_got < total || !sig_done[0] || !sig_done[1]) && vh_nviol == 0) {
		fibre_scheduler_next(t++);
		passes++;
		if ((passes & 255) == 0)
			fibre_run(&evH.fibre);
		if (passes > 4000000000ull)
			break;
	}
	for (int i = 0; i < 2; i++)
		timer_delete(sig_timer[i]);
	signal(SIGUSR1, SIG_IGN);
	signal(SIGUSR2, SIG_IGN);
	for (int i = 0; i < 12; i++)
		fibre_scheduler_next(t++);
	uint32_t needA = accA[0] > accA[1] ? accA[0] : accA[1], needB = accB[0] > accB[1] ? accB[0] : accB[1];
	if (vh_nviol == 0 && fb_got != total)
		vh_violation("fibre:event-lost", vh_cur_replay, "%d events were sent from signal handlers, %d received", total, fb_got);
	if (vh_nviol == 0 && (seenA < needA || seenB < needB))
		vh_violation("fibre:accepted-wakeup-never-observed", vh_cur_replay, "fibre A saw %u of %u, fibre B saw %u of %u accepted wake-ups", seenA, needA,
			     seenB, needB);
	vh_evaluations++;
	VH_COUNT_N("signal_events_handed_over", (uint64_t)fb_got);
	VH_COUNT_N("signals_delivered", sig_count[0] + sig_count[1]);
	VH_COUNT_N("signals_nested_in_another_handler", sig_nested);
	VH_COUNT_N("signal_scheduler_passes", passes);
	VH_COUNT("signal_rounds");
	vh_distinct(vh_mix(vh_mix(0x54, sig_count[0]), passes));
	if (vh_want_sample())
		vh_sample("signals: %d events each from SIGUSR1/SIGUSR2 handlers (%" PRIu64 " signals, %" PRIu64 " nested), %" PRIu64 " passes", per,
			  (uint64_t)(sig_count[0] + sig_count[1]), (uint64_t)sig_nested, passes);
}

int main(int argc, char **argv)
{
	vh_init(argc, argv, "threads");
	const char *mode = vh_opt.extra ? vh_opt.extra : "ring";
	vh_rng_t r;
	vh_rng_seed(&r, vh_opt.seed, 7, (uint64_t)vh_opt.proc);
	seedmix = vh_next(&r) & 0xff;
	int rounds = vh_opt.cases ? (int)vh_opt.cases : (vh_opt.thorough ? 12 : 3);
	vh_case_replay("--extra %s", mode);
	for (int k = 0; k < rounds && vh_nviol == 0; k++) {
		if (!strcmp(mode, "ring")) {
			static const size_t lens[] = { 2, 3, 4, 5, 7, 17 };
			for (unsigned i = 0; i < 6 && vh_nviol == 0; i++)
				ring_round(lens[i], vh_opt.thorough ? 400000 : 150000, vh_below(&r, 100));
		} else if (!strcmp(mode, "mq")) {
			static const int cfg[][2] = { { 1, 2 }, { 2, 3 }, { 3, 5 }, { 4, 8 }, { 4, 15 }, { 2, 2 } };
			for (unsigned i = 0; i < 6 && vh_nviol == 0; i++)
				mq_round(cfg[i][0], cfg[i][1], (vh_opt.thorough ? 60000 : 20000) / cfg[i][1]);
		} else if (!strcmp(mode, "signal")) {
			signal_round(vh_opt.thorough ? 20000 : 4000);
		} else {
			static const int ns[] = { 2, 4, 8 };
			for (unsigned i = 0; i < 3 && vh_nviol == 0; i++)
				fibre_round(ns[i], vh_opt.thorough ? 6000 : 2500);
		}
	}
	return vh_finish();
}

/*
 * C15 - console line editing, tokenising and dispatch.
 *
 * Model: the edited line (append; backspace deletes the last character if any;
 * Ctrl-C empties; newline, or a character arriving when 79 are held,
 * completes).  For lines in the unambiguous domain (first character neither
 * blank nor quote; tokens separated by blanks; each token bare without quote
 * characters, or wholly and non-emptily quoted with one quote type) the
 * expected argc/argv are computed by the model; outside it only safety and
 * structure are checked (argc in 1..4, every argv inside the line buffer and
 * NUL-terminated inside it).  The console_t is an exactly-sized heap block.
 *
 * delivery: console_process / console_putchar + scheduler / console_eval
 * --extra exh   every stream over {a,space,',",BS,^C,NL} up to length L
 * --extra rand  random streams, line lengths clustered at 0,1,77..82
 * --extra reg   registration orders and counts up to and beyond the table size
 */
#include "vh.h"

#include <ctype.h>
#include <librfn/console.h>
#include <librfn/fibre.h>

void fibre_verif_reset(void);
void console_verif_reset(void);
void console_hwinit(console_t *c) { (void)c; }

#define MAXARGS 4
typedef struct {
	int cmd; /* index of the capture command that ran */
	int argc;
	char argv[MAXARGS][84];
	int resumes;
} dispatch_t;

#define MAXDISP 64
static dispatch_t got[MAXDISP];
static int ngot;
static console_t *con;
static FILE *out;
static char *outbuf;
static size_t outlen;
static bool failed;
static char scen[VH_TEXT];
static char streamdesc[VH_TEXT];
static int yield_k; /* how many times capture commands yield before exiting */
static bool scribble; /* capture commands dirty the whole scratch area before they exit */
static bool fail_mode; /* capture commands end with PT_FAIL: the console must report "Command failed" once each */

static void viol(const char *key, const char *fmt, ...)
{
	char msg[700];
	va_list ap;
	va_start(ap, fmt);
	vsnprintf(msg, sizeof(msg), fmt, ap);
	va_end(ap);
	vh_violation(key, vh_cur_replay, "%s | %s | stream: %s", msg, scen, streamdesc);
	failed = true;
}

/* ---- capture commands ---- */
#define NCMD 40
static console_cmd_t cmds[NCMD];
static char cmdnames[NCMD][12];
static int ncmds_registered;

static void check_args_structure(console_t *c, const char *when)
{
	if (c->argc < 1 || c->argc > MAXARGS) {
		viol("argc-out-of-range", "%s: argc = %d", when, c->argc);
		return;
	}
	for (int i = 0; i < MAXARGS; i++) {
		char *a = c->argv[i];
		if (a < c->scratch.buf || a >= c->scratch.buf + SCRATCH_SIZE) {
			viol("argv-outside-line-buffer", "%s: argv[%d] points %td bytes from the start of the %d-byte line buffer", when, i,
			     a - c->scratch.buf, SCRATCH_SIZE);
			return;
		}
		if (!memchr(a, 0, (size_t)(c->scratch.buf + SCRATCH_SIZE - a))) {
			viol("argv-not-terminated-in-buffer", "%s: argv[%d] has no NUL inside the line buffer", when, i);
			return;
		}
	}
}

static int which_cmd(console_t *c)
{
	for (int i = 0; i < NCMD; i++)
		if (c->cmd == &cmds[i])
			return i;
	return -1;
}

static pt_state_t capture(console_t *c)
{
	/* the command protothread: record on first entry, yield yield_k times checking argv stays intact */
	static int left;
	int me = which_cmd(c);
	PT_BEGIN(&c->pt);
	check_args_structure(c, "at dispatch");
	if (ngot < MAXDISP && !failed) {
		dispatch_t *d = &got[ngot++];
		d->cmd = me;
		d->argc = c->argc;
		d->resumes = 0;
		for (int i = 0; i < MAXARGS; i++)
			snprintf(d->argv[i], sizeof(d->argv[i]), "%s", c->argv[i]);
	}
	for (left = yield_k; left > 0; left--) {
		PT_YIELD();
		if (ngot && !failed) {
			dispatch_t *d = &got[ngot - 1];
			d->resumes++;
			check_args_structure(c, "on resumption");
			for (int i = 0; i < MAXARGS && !failed; i++)
				if (strcmp(d->argv[i], c->argv[i]))
					viol("argv-changed-across-yield", "argv[%d] was \"%s\" at dispatch and \"%s\" after the command yielded", i,
					     d->argv[i], c->argv[i]);
		}
	}
	/* commands may keep state in the scratch buffers once they have parsed their arguments (console.h):
	 * leave the whole scratch area dirty, the console has to present a clean line to the next command */
	if (scribble)
		memset(&c->scratch, 0xEE, sizeof(c->scratch));
	PT_FAIL_ON(fail_mode);
	PT_END();
}

/* ---- model ---- */
static char mline[128];
static int mlen;
static bool next_line_uncertain; /* after an overflow dispatch the triggering character may or may not be kept */

typedef struct {
	bool functional; /* line in the unambiguous domain: argv are predicted */
	bool empty;
	int ntok;
	char tok[12][84];
	bool quoted[12];
	bool midword_quote;
	char line[84];
} expect_t;
static expect_t expq[MAXDISP];
static int nexp;
static bool uncertain_flag[MAXDISP];

/* "white space" is the isspace() class of the C locale; a newline never reaches the line buffer */
static bool is_ws(char ch)
{
	return ch == ' ' || ch == '\t' || ch == '\r' || ch == '\v' || ch == '\f';
}

static bool parse_unambiguous(const char *line, int len, expect_t *e)
{
	e->ntok = 0;
	if (len == 0 || isspace((unsigned char)line[0]) || line[0] == '\'' || line[0] == '"')
		return false;
	int i = 0;
	while (i < len) {
		while (i < len && is_ws(line[i]))
			i++;
		if (i >= len)
			break;
		if (e->ntok >= 12)
			return false;
		char *t = e->tok[e->ntok];
		int n = 0;
		e->quoted[e->ntok] = false;
		if (line[i] == '\'' || line[i] == '"') {
			char q = line[i++];
			e->quoted[e->ntok] = true;
			while (i < len && line[i] != q)
				t[n++] = line[i++];
			if (i >= len || n == 0)
				return false; /* unterminated or empty quoted token */
			i++;
			if (i < len && !is_ws(line[i]))
				return false; /* quote closed in the middle of a word */
		} else {
			/* a quote character inside a bare word neither opens nor closes anything: arguments are quoted
			 * as a whole, and the line is split at white space only */
			while (i < len && !is_ws(line[i])) {
				if (line[i] == '\'' || line[i] == '"')
					e->midword_quote = true;
				t[n++] = line[i++];
			}
		}
		t[n] = 0;
		e->ntok++;
	}
	return e->ntok > 0;
}

static void model_dispatch(void)
{
	if (nexp >= MAXDISP)
		return;
	expect_t *e = &expq[nexp++];
	memset(e, 0, sizeof(*e));
	memcpy(e->line, mline, (size_t)mlen);
	e->line[mlen] = 0;
	e->empty = mlen == 0;
	e->functional = !next_line_uncertain && !e->empty && parse_unambiguous(mline, mlen, e);
	uncertain_flag[nexp - 1] = next_line_uncertain;
	mlen = 0;
}

static void model_feed(int ch)
{
	if (ch == '\n') {
		model_dispatch();
		next_line_uncertain = false;
	} else if (mlen >= 79) {
		model_dispatch();
		next_line_uncertain = true;
	} else if (ch == '\b') {
		if (mlen > 0)
			mlen--;
	} else if (ch == 3) {
		mlen = 0;
		next_line_uncertain = false; /* whatever was kept is gone */
	} else {
		mline[mlen++] = (char)ch;
	}
}

static int find_registered(const char *name)
{
	for (int i = 0; i < ncmds_registered; i++)
		if (!strcmp(cmdnames[i], name))
			return i;
	return -1;
}

/* compare what happened (got[], console output) with the model's queue */
static int unknown_seen;
static int count_unknown(void)
{
	fflush(out);
	int n = 0;
	for (const char *p = outbuf; p && (p = strstr(p, "Unknown/bad command")); p += 7)
		n++;
	return n;
}

static int exp_checked, got_checked, unknown_expected;
static int help_lines;
static bool lost_sync;
static bool next_line_uncertain_at(int i) { return uncertain_flag[i]; }
static void compare(bool at_end)
{
	(void)at_end;
	while (exp_checked < nexp && !failed) {
		expect_t *e = &expq[exp_checked];
		if (e->empty && !next_line_uncertain_at(exp_checked)) {
			/* an empty line runs no registered command and prints no complaint */
			exp_checked++;
			continue;
		}
		if (!e->functional) {
			/* only structure was checked (inside capture).  We cannot tell whether a registered command ran.
			 * If this is the most recent completed line, resynchronise to whatever has been captured so far;
			 * if further lines are already queued behind it the alignment is lost: stop comparing this stream */
			if (exp_checked == nexp - 1) {
				exp_checked++;
				got_checked = ngot;
				unknown_expected = count_unknown();
			} else {
				exp_checked = nexp;
				got_checked = ngot;
				unknown_expected = count_unknown();
				lost_sync = true;
			}
			continue;
		}
		int r = find_registered(e->tok[0]);
		if (r < 0 && (!strcmp(e->tok[0], "help") || !strcmp(e->tok[0], "echo"))) {
			/* built-in command: no capture command runs, no complaint is printed */
			if (got_checked < ngot && exp_checked == nexp - 1 && !at_end) {
				viol("registered-command-ran-for-builtin-name", "line \"%s\" ran command \"%s\"", e->line, cmdnames[got[got_checked].cmd]);
				return;
			}
			if (!lost_sync && count_unknown() > unknown_expected && exp_checked == nexp - 1 && !at_end) {
				viol("builtin-command-not-found", "line \"%s\": the console printed its unknown-command message for a built-in", e->line);
				return;
			}
			if (!strcmp(e->tok[0], "help"))
				help_lines++;
			VH_COUNT("builtin_lines");
			exp_checked++;
			continue;
		}
		if (r < 0) {
			/* no registered command may run; the console says so.  (Only decidable while this is the one
			 * line pending: in batch comparisons later lines have already produced their dispatches.) */
			if (got_checked < ngot && exp_checked == nexp - 1 && !at_end) {
				viol("registered-command-ran-for-unknown-name", "line \"%s\": first token \"%s\" is not a registered name but command \"%s\" ran",
				     e->line, e->tok[0], cmdnames[got[got_checked].cmd]);
				return;
			}
			unknown_expected++;
			if (!lost_sync && count_unknown() < unknown_expected) {
				viol("unknown-command-not-reported", "line \"%s\" names no command but the console did not print its unknown-command message",
				     e->line);
				return;
			}
			exp_checked++;
			continue;
		}
		if (got_checked >= ngot) {
			if (!at_end)
				return; /* not dispatched yet (still queued in the ring) */
			viol("line-not-dispatched", "line \"%s\" should run command \"%s\" but nothing ran", e->line, e->tok[0]);
			return;
		}
		dispatch_t *d = &got[got_checked];
		int want_argc = e->ntok < MAXARGS ? e->ntok : MAXARGS;
		if (d->cmd != r) {
			viol("wrong-command-dispatched", "line \"%s\": command \"%s\" ran, expected \"%s\"", e->line, cmdnames[d->cmd], e->tok[0]);
			return;
		}
		if (d->argc != want_argc) {
			viol("wrong-argc", "line \"%s\" has %d token(s): argc = %d, expected %d", e->line, e->ntok, d->argc, want_argc);
			return;
		}
		for (int k = 0; k < want_argc; k++) {
			/* the final argument may carry the rest of the line (trailing blanks, further tokens); only a
			 * quoted final argument on a four-token line must come out exactly, because a quote character
			 * delimits an argument under every reading and is never part of it */
			bool exact = k < 3 || (e->ntok == 4 && e->quoted[k]);
			bool ok = exact ? !strcmp(d->argv[k], e->tok[k]) : !strncmp(d->argv[k], e->tok[k], strlen(e->tok[k]));
			if (!ok) {
				char key[96];
				snprintf(key, sizeof(key), "wrong-argv:%s", k == 3 ? "fourth-argument" : k == 0 ? "command-name" : "argument");
				viol(key, "line \"%s\": argv[%d] = \"%s\", expected %s\"%s\"", e->line, k, d->argv[k], exact ? "" : "a string beginning with ",
				     e->tok[k]);
				return;
			}
		}
		for (int k = want_argc; k < MAXARGS; k++)
			if (d->argv[k][0]) {
				viol("unused-argv-not-empty", "line \"%s\": argv[%d] = \"%s\" beyond argc = %d", e->line, k, d->argv[k], d->argc);
				return;
			}
		if (yield_k && d->resumes != yield_k && at_end) {
			viol("yielding-command-not-resumed", "command yielded %d times but was resumed %d times", yield_k, d->resumes);
			return;
		}
		VH_COUNT("dispatches_compared_functionally");
		if (e->midword_quote)
			VH_COUNT("dispatches_compared_with_a_quote_inside_a_bare_word");
		exp_checked++;
		got_checked++;
	}
	if (at_end && !failed && !lost_sync && got_checked < ngot && exp_checked >= nexp) {
		/* more dispatches than completed lines (only flagged when all lines were functional) */
		bool all_functional = true;
		for (int i = 0; i < nexp; i++)
			all_functional = all_functional && (expq[i].functional || expq[i].empty);
		if (all_functional && !next_line_uncertain)
			viol("extra-dispatch", "%d command dispatches for %d completed lines (first extra: \"%s\" argc %d argv[1]=\"%s\")", ngot, nexp,
			     cmdnames[got[got_checked].cmd], got[got_checked].argc, got[got_checked].argv[1]);
	}
}

/* ---- console life cycle ---- */
static void new_console(const char *const *names, int nnames)
{
	if (out)
		fclose(out);
	free(outbuf);
	outbuf = NULL;
	free(con);
	fibre_verif_reset();
	console_verif_reset();
	con = malloc(sizeof(console_t)); /* exactly sized: ASan red zones around the structure */
	out = open_memstream(&outbuf, &outlen);
	console_init(con, out);
	ncmds_registered = 0;
	for (int i = 0; i < nnames && i < NCMD; i++) {
		snprintf(cmdnames[i], sizeof(cmdnames[i]), "%s", names[i]);
		cmds[i].name = cmdnames[i];
		cmds[i].fn = capture;
		if (console_register(&cmds[i]) != 0)
			viol("register-failed-with-room", "console_register(\"%s\") failed although only %d user commands are registered", names[i], i);
		ncmds_registered++;
	}
	ngot = nexp = 0;
	exp_checked = got_checked = unknown_expected = 0;
	help_lines = 0;
	lost_sync = false;
	unknown_seen = 0;
	mlen = 0;
	next_line_uncertain = false;
	failed = false;
}

static uint32_t vt;
static void run_scheduler_until_idle(void)
{
	for (int i = 0; i < 4000; i++) {
		uint32_t w = fibre_scheduler_next(vt);
		if (w != vt)
			return;
	}
	viol("console-fibre-never-idle", "the scheduler kept reporting runnable work for 4000 passes");
}

static void describe_stream(const unsigned char *s, int n)
{
	vh_sb_t sb;
	vh_sb_reset(&sb);
	for (int i = 0; i < n && sb.n < 600; i++) {
		unsigned char ch = s[i];
		if (ch == '\n')
			vh_sb_add(&sb, "<NL>");
		else if (ch == '\b')
			vh_sb_add(&sb, "<BS>");
		else if (ch == 3)
			vh_sb_add(&sb, "<^C>");
		else if (ch == '\t')
			vh_sb_add(&sb, "<TAB>");
		else
			vh_sb_add(&sb, "%c", ch);
	}
	snprintf(streamdesc, sizeof(streamdesc), "%s", sb.b);
}

/* mode: 0 console_process, 1 console_putchar + scheduler, 2 console_eval */
static void deliver(const unsigned char *s, int n, int mode)
{
	describe_stream(s, n);
	vh_case_desc("%s | %s", scen, streamdesc);
	if (mode == 0) {
		for (int i = 0; i < n && !failed; i++) {
			model_feed(s[i]);
			console_process(con, (char)s[i]);
			compare(false);
		}
	} else if (mode == 1) {
		int i = 0;
		run_scheduler_until_idle(); /* initial prompt */
		while (i < n && !failed) {
			int burst = 1 + (int)(s[i] % 15);
			for (int k = 0; k < burst && i < n; k++, i++) {
				model_feed(s[i]);
				console_putchar(con, (char)s[i]);
			}
			run_scheduler_until_idle();
			compare(false);
		}
	} else {
		/* console_eval wants a NUL terminated string: the stream must not contain NUL (it does not) */
		char *str = malloc((size_t)n + 1);
		memcpy(str, s, (size_t)n);
		str[n] = 0;
		int lines = 0;
		for (int i = 0; i < n; i++) {
			model_feed(s[i]);
			if (s[i] == '\n')
				lines++;
		}
		run_scheduler_until_idle();
		pt_t pt;
		PT_INIT(&pt);
		int bound = (n + lines + 2) * 4 + 8, k = 0;
		pt_state_t st;
		do {
			st = console_eval(&pt, con, str);
			run_scheduler_until_idle();
			k++;
		} while (st == PT_YIELDED && k < bound && !failed);
		if (!failed && st != PT_EXITED)
			viol("eval-never-completes", "console_eval of %d characters (%d lines) still returns %s after %d invocations", n, lines,
			     st == PT_YIELDED ? "yielded" : st == PT_WAITING ? "waiting" : "failed", k);
		VH_COUNT("eval_injections");
		free(str);
	}
	if (!failed)
		compare(true);
	if (!failed && !lost_sync) {
		fflush(out);
		int nfail = 0;
		for (const char *q = outbuf; q && (q = strstr(q, "Command failed")); q += 7)
			nfail++;
		if (fail_mode ? nfail != ngot : nfail != 0)
			viol("command-failure-report", "%d commands ended with PT_FAILED but \"Command failed\" was printed %d times", fail_mode ? ngot : 0, nfail);
		if (help_lines && !failed) {
			/* help lists every registered name (and the built-ins), once per invocation */
			for (int i = 0; i < ncmds_registered && !failed; i++) {
				char pat[32];
				snprintf(pat, sizeof(pat), "  %s\n", cmdnames[i]);
				int n = 0;
				for (const char *q = outbuf; q && (q = strstr(q, pat)); q += 2)
					n++;
				if (n < help_lines)
					viol("help-listing-incomplete", "help ran %d time(s) but lists \"%s\" %d time(s)", help_lines, cmdnames[i], n);
			}
			VH_COUNT_N("help_invocations_checked", help_lines);
		}
	}
}

/* ---- workloads ---- */
static const char *const std_names[] = { "a", "aa", "cap", "x1", "Zap", "GPIO" };
#define NSTD 6

static void exhaustive(void)
{
	static const unsigned char alpha[] = { 'a', ' ', '\'', '"', '\b', 3, '\n' };
	int L = vh_opt.thorough ? 9 : 7;
	if (vh_opt.cases)
		L = (int)vh_opt.cases;
	uint64_t total = 1;
	for (int i = 0; i < L; i++)
		total *= 7;
	snprintf(scen, sizeof(scen), "exhaustive streams of length %d over {a,space,',\",BS,^C,NL}, console_process", L);
	for (uint64_t idx = (uint64_t)vh_opt.proc; idx < total && vh_nviol < 8; idx += (uint64_t)vh_opt.nproc) {
		if (vh_opt.only_case >= 0 && idx != (uint64_t)vh_opt.only_case)
			continue;
		unsigned char s[16];
		uint64_t x = idx;
		bool has_nl = false, has_edit = false, has_quote = false;
		for (int i = 0; i < L; i++) {
			s[i] = alpha[x % 7];
			x /= 7;
			has_nl = has_nl || s[i] == '\n';
			has_edit = has_edit || s[i] == '\b' || s[i] == 3;
			has_quote = has_quote || s[i] == '\'' || s[i] == '"';
		}
		if (!has_nl)
			continue; /* nothing is dispatched: covered as a prefix of longer streams */
		char key[64];
		snprintf(key, sizeof(key), "exh:case=%" PRIu64, idx);
		vh_case_key(key);
		vh_case_replay("--extra exh --cases %d --only-case %" PRIu64, L, idx);
		yield_k = 0;
		scribble = (idx & 1) != 0;
		fail_mode = false;
		new_console(std_names, 2);
		deliver(s, L, 0);
		vh_evaluations++;
		if (has_edit && has_quote)
			VH_COUNT_N("__distinct_exact", 1);
		if (vh_want_sample() && has_edit && has_quote && idx % 5003 == 7)
			vh_sample("%s", streamdesc);
	}
	vh_exhaustive = vh_nviol == 0;
	snprintf(vh_note, sizeof(vh_note), "%s (streams without a newline skipped)", scen);
}

static void random_case(long long c)
{
	vh_rng_t r;
	vh_rng_seed(&r, vh_opt.seed, 15, (uint64_t)c);
	char key[64];
	snprintf(key, sizeof(key), "rand:case=%lld", c);
	vh_case_key(key);
	vh_case_replay("--extra rand --only-case %lld", c);
	int mode = (int)(c % 3);
	yield_k = vh_below(&r, 3) == 0 ? 1 + (int)vh_below(&r, 3) : 0;
	scribble = vh_below(&r, 2);
	fail_mode = vh_below(&r, 5) == 0;
	new_console(std_names, NSTD);
	if (vh_below(&r, 2))
		console_silent(con); /* documented way to suppress the first prompt */
	static const char bare[] = "abcx019-_.";
	unsigned char s[1400];
	int n = 0;
	int nlines = 1 + (int)vh_below(&r, 5);
	bool near_limit = false, has_edit = false, has_quote = false, odd_ws = false;
	for (int l = 0; l < nlines && n < 1200; l++) {
		/* target line length */
		uint32_t x = vh_below(&r, 10);
		int target = x < 1 ? 0 : x < 2 ? 1 : x < 5 ? 77 + (int)vh_below(&r, 6) : (int)vh_below(&r, 40);
		if (mode == 2 && target > 60 && vh_below(&r, 2))
			target = (int)vh_below(&r, 30);
		if (target >= 77)
			near_limit = true;
		/* first token: a registered name most of the time */
		int len = 0;
		const char *first = vh_below(&r, 4) ? std_names[vh_below(&r, NSTD)] : "zz";
		if (vh_below(&r, 12) == 0)
			first = vh_below(&r, 2) ? "help" : "echo";
		if (target > 0) {
			for (const char *p = first; *p && len < target; p++, len++)
				s[n++] = (unsigned char)*p;
		}
		while (len < target && n < 1300) {
			uint32_t y = vh_below(&r, 100);
			if (y < 18) {
				s[n++] = (unsigned char)" \t    \t\r\v\f"[vh_below(&r, 10)];
				if (s[n - 1] != ' ' && s[n - 1] != '\t')
					odd_ws = true;
				len++;
			} else if (y < 24) {
				/* a quoted token */
				char q = vh_below(&r, 2) ? '\'' : '"';
				int ql = 1 + (int)vh_below(&r, 6);
				if (len + ql + 3 > target)
					ql = 1;
				if (!is_ws((char)s[n - 1]) && vh_below(&r, 8)) {
					s[n++] = ' ';
					len++;
				}
				s[n++] = (unsigned char)q;
				len++;
				for (int k = 0; k < ql; k++, len++)
					s[n++] = vh_below(&r, 4) ? (unsigned char)bare[vh_below(&r, 10)] : (vh_below(&r, 2) ? ' ' : (q == '"' ? '\'' : '"'));
				s[n++] = (unsigned char)q;
				len++;
				if (vh_below(&r, 8)) {
					s[n++] = ' ';
					len++;
				}
				has_quote = true;
			} else if (y < 30) {
				/* an edit: type junk then erase it, or Ctrl-C and retype */
				has_edit = true;
				if (vh_below(&r, 5) == 0) {
					s[n++] = 3;
					len = 0;
					for (const char *p = first; *p && len < target; p++, len++)
						s[n++] = (unsigned char)*p;
				} else {
					int k = 1 + (int)vh_below(&r, 3);
					for (int j = 0; j < k; j++)
						s[n++] = (unsigned char)bare[vh_below(&r, 10)];
					int bs = k - (vh_below(&r, 6) == 0) + (vh_below(&r, 6) == 0);
					for (int j = 0; j < bs; j++)
						s[n++] = '\b';
					len += k - bs;
					if (len < 0)
						len = 0;
				}
			} else if (y < 33 && n > 0 && !is_ws((char)s[n - 1]) && s[n - 1] != '\b' && s[n - 1] != 3) {
				/* an apostrophe or inch mark inside a word (don't, 5") */
				s[n++] = vh_below(&r, 2) ? '\'' : '"';
				len++;
			} else {
				s[n++] = (unsigned char)bare[vh_below(&r, 10)];
				len++;
			}
		}
		if (vh_below(&r, 12) == 0) {
			/* stray backspaces at the start / on an empty line */
			s[n++] = '\b';
		}
		s[n++] = '\n';
	}
	snprintf(scen, sizeof(scen), "random stream, delivery by %s, commands %s", mode == 0 ? "console_process" : mode == 1 ? "console_putchar+scheduler" : "console_eval",
		 yield_k ? "yield before exiting" : "exit at once");
	deliver(s, n, mode);
	vh_evaluations++;
	VH_COUNT("random_streams");
	if (near_limit)
		VH_COUNT("streams_with_line_near_the_79_limit");
	if (odd_ws)
		VH_COUNT("streams_with_cr_vt_ff_between_words");
	if ((has_edit && has_quote) || near_limit) {
		uint64_t h = 15;
		for (int i = 0; i < n; i++)
			h = vh_mix(h, s[i]);
		vh_distinct(vh_mix(h, (uint64_t)mode));
		VH_COUNT("streams_nontrivial");
	}
	if (vh_want_sample() && n < 120 && has_edit && has_quote)
		vh_sample("%s | %s", scen, streamdesc);
}

/* registration scenarios */
static void reg_case(long long c)
{
	vh_rng_t r;
	vh_rng_seed(&r, vh_opt.seed, 115, (uint64_t)c);
	char key[64];
	snprintf(key, sizeof(key), "reg:case=%lld", c);
	vh_case_key(key);
	vh_case_replay("--extra reg --only-case %lld", c);
	int n = (int)vh_below(&r, 3) == 0 ? 27 + (int)vh_below(&r, 13) : (int)vh_below(&r, 12);
	if (n > NCMD)
		n = NCMD;
	yield_k = 0;
	fail_mode = false;
	scribble = vh_below(&r, 2);
	new_console(NULL, 0);
	/* distinct names, random order: permutation of a pool that sorts in every which way vs the built-ins echo/help */
	static const char *const pool[] = { "a", "b", "ab", "ba", "aa", "z", "zz", "f", "g", "ec", "echo2", "hel", "helpx", "i", "d", "e1",
					    "h1", "m", "n", "o", "p", "q", "r", "s", "t", "u", "v", "w", "x", "y", "Zap", "GPIO", "Reboot", "Echo",
					    "Help", "cb", "cc", "da", "_x", "9" };
	int order[NCMD];
	for (int i = 0; i < NCMD; i++)
		order[i] = i;
	for (int i = NCMD - 1; i > 0; i--) {
		int j = (int)vh_below(&r, (uint32_t)(i + 1));
		int t = order[i];
		order[i] = order[j];
		order[j] = t;
	}
	snprintf(scen, sizeof(scen), "registration of %d commands in random order", n);
	vh_sb_t sb;
	vh_sb_reset(&sb);
	int accepted = 0;
	for (int i = 0; i < n && !failed; i++) {
		snprintf(cmdnames[i], sizeof(cmdnames[i]), "%s", pool[order[i]]);
		cmds[i].name = cmdnames[i];
		cmds[i].fn = capture;
		int rc = console_register(&cmds[i]);
		vh_sb_add(&sb, "%s%s ", cmdnames[i], rc ? "(refused)" : "");
		bool should_fit = accepted < 29; /* 32 slots - echo, help, sentinel */
		if ((rc == 0) != should_fit) {
			viol(should_fit ? "register-failed-with-room" : "register-succeeded-on-full-table",
			     "registration #%d (\"%s\") returned %d with %d user commands already in a table of 32 slots (3 built in)", i + 1,
			     cmdnames[i], rc, accepted);
			break;
		}
		if (rc == 0)
			accepted++;
		else
			cmdnames[i][0] = 0; /* not registered */
	}
	snprintf(streamdesc, sizeof(streamdesc), "%s", sb.b);
	vh_case_desc("%s | %s", scen, streamdesc);
	/* every registered name is found exactly, unknown names run nothing, built-ins still work */
	ncmds_registered = n;
	for (int i = 0; i < n + 3 && !failed; i++) {
		char line[40];
		const char *name = i < n ? pool[order[i]] : i == n ? "nosuch" : i == n + 1 ? "ech" : "helpp";
		bool registered = i < n && cmdnames[i][0];
		snprintf(line, sizeof(line), "%s arg\n", name);
		int before = ngot, ub = count_unknown();
		for (const char *p = line; *p; p++)
			console_process(con, *p);
		if (registered) {
			if (ngot != before + 1 || got[ngot - 1].cmd != i || strcmp(got[ngot - 1].argv[1], "arg"))
				viol("registered-command-not-found", "after %d registrations the line \"%s arg\" ran %s", n, name,
				     ngot == before ? "nothing" : cmdnames[got[ngot - 1].cmd]);
		} else {
			if (ngot != before)
				viol("registered-command-ran-for-unknown-name", "line \"%s arg\" ran command \"%s\"", name, cmdnames[got[ngot - 1].cmd]);
			else if (count_unknown() != ub + 1)
				viol("unknown-command-not-reported", "line \"%s arg\": no unknown-command message", name);
		}
		VH_COUNT("lookups_checked");
	}
	/* built-in still reachable */
	if (!failed) {
		size_t mark = (fflush(out), outlen);
		for (const char *p = "echo hi there\n"; *p; p++)
			console_process(con, *p);
		fflush(out);
		if (!outbuf || !strstr(outbuf + mark, " hi there"))
			viol("builtin-echo-lost", "after %d registrations \"echo hi there\" no longer echoes", n);
	}
	vh_evaluations++;
	VH_COUNT("registration_scenarios");
	if (n >= 29) {
		VH_COUNT("scenarios_filling_the_table");
		vh_distinct(vh_mix(0x1515, (uint64_t)c));
	}
	if (vh_want_sample() && n > 29)
		vh_sample("%s | %s", scen, streamdesc);
}

int main(int argc, char **argv)
{
	vh_init(argc, argv, "console");
	const char *mode = vh_opt.extra ? vh_opt.extra : "rand";
	if (!strcmp(mode, "exh")) {
		exhaustive();
	} else if (!strcmp(mode, "reg")) {
		long long n = vh_opt.cases ? vh_opt.cases : (vh_opt.thorough ? 100000 : 2000);
		for (long long c = vh_opt.proc; c < n && vh_nviol < 8; c += vh_opt.nproc)
			if (vh_opt.only_case < 0 || c == vh_opt.only_case)
				reg_case(c);
	} else {
		long long n = vh_opt.cases ? vh_opt.cases : (vh_opt.thorough ? 10000000 : 150000);
		for (long long c = vh_opt.proc; c < n && vh_nviol < 8; c += vh_opt.nproc)
			if (vh_opt.only_case < 0 || c == vh_opt.only_case)
				random_case(c);
	}
	return vh_finish();
}

/*
 * C18 - hex dump round trip; hex_get_byte safe on any NUL-terminated text.
 *
 * mode "rt":   byte array -> hex_dump_to_file (memstream) -> exactly-sized heap
 *              string -> hex_get_byte until -1; format of the dump checked.
 * mode "fuzz": arbitrary strings: only values in -1..255, -1 reached within
 *              strlen/2+2 calls, then -1 three more times; ASan watches reads.
 * mode "struct": texts rendered from known bytes with 0x prefixes, mixed case,
 *              blanks/tabs/CR, optional "address:" prefix on every line.
 */
#include "vh.h"

#include <ctype.h>
#include <librfn/hex.h>

/* Texts live in exactly-sized heap blocks (a read past the NUL is an ASan report).  Every other text is instead placed
 * at the end of one long-lived block, so that consecutive texts of different kinds occupy the same addresses - freshly
 * allocated blocks never do under ASan's quarantine, and a parser must not remember anything about an address. */
#define ARENA 8192
static char *arena;
static unsigned copies;
static char *exact_copy(const char *s, size_t len)
{
	char *p;
	if ((copies++ & 1) && len + 1 <= ARENA) {
		if (!arena)
			arena = malloc(ARENA);
		p = arena + ARENA - (len + 1);
		VH_COUNT("texts_placed_over_an_earlier_text");
	} else {
		p = malloc(len + 1);
	}
	memcpy(p, s, len);
	p[len] = 0;
	return p;
}
static void text_free(char *p)
{
	if (arena && p >= arena && p < arena + ARENA)
		return;
	free(p);
}

static void show(char *out, size_t outsz, const char *s, size_t len)
{
	size_t n = 0;
	for (size_t i = 0; i < len && n + 6 < outsz; i++) {
		unsigned char c = (unsigned char)s[i];
		if (c == '\n')
			n += snprintf(out + n, outsz - n, "\\n");
		else if (c == '\t')
			n += snprintf(out + n, outsz - n, "\\t");
		else if (c < 0x20 || c >= 0x7f || c == '\\')
			n += snprintf(out + n, outsz - n, "\\x%02x", c);
		else
			out[n++] = (char)c;
	}
	out[n] = 0;
}

/* parse text fully; store bytes; returns count or -1 on protocol violation */
static long parse_all(const char *text, size_t len, uint8_t *out, size_t outmax, const char *what)
{
	const char *p = (const char *)0x1; /* poison: must be written before use */
	long n = 0;
	size_t maxcalls = len / 2 + 2;
	int r = hex_get_byte(text, &p);
	size_t calls = 1;
	char buf[600];
	while (r != -1) {
		if (r < 0 || r > 255) {
			show(buf, sizeof(buf), text, len);
			vh_violation("value-out-of-range", vh_cur_replay, "%s: hex_get_byte returned %d on \"%s\"", what, r, buf);
			return -1;
		}
		/* a byte comes from a pair of hex digits in the text: the resume pointer stands just behind them */
		if (p >= text + 2 && p <= text + len) {
			unsigned char h = (unsigned char)p[-2], l = (unsigned char)p[-1];
			int hv = h >= '0' && h <= '9' ? h - '0' : h >= 'a' && h <= 'f' ? h - 'a' + 10 : h >= 'A' && h <= 'F' ? h - 'A' + 10 : -1;
			int lv = l >= '0' && l <= '9' ? l - '0' : l >= 'a' && l <= 'f' ? l - 'a' + 10 : l >= 'A' && l <= 'F' ? l - 'A' + 10 : -1;
			if (hv < 0 || lv < 0 || hv * 16 + lv != r) {
				show(buf, sizeof(buf), text, len);
				vh_violation("byte-without-hex-pair", vh_cur_replay,
					     "%s: hex_get_byte returned 0x%02x with the text position at offset %td, behind \"\\x%02x\\x%02x\", in \"%s\"", what,
					     r, p - text, h, l, buf);
				return -1;
			}
			VH_COUNT("bytes_traced_to_their_hex_pair");
		}
		if ((size_t)n < outmax)
			out[n] = (uint8_t)r;
		n++;
		if (calls > maxcalls) {
			show(buf, sizeof(buf), text, len);
			vh_violation("no-termination", vh_cur_replay, "%s: %zu calls on a %zu-char string without -1: \"%s\"", what, calls, len, buf);
			return -1;
		}
		if (p && (p < text || p > text + len)) {
			show(buf, sizeof(buf), text, len);
			vh_violation("cursor-outside-string", vh_cur_replay, "%s: resume pointer at offset %td of a %zu-char string \"%s\"", what,
				     p - text, len, buf);
			return -1;
		}
		r = hex_get_byte(NULL, &p);
		calls++;
	}
	for (int i = 0; i < 3; i++) {
		r = hex_get_byte(NULL, &p);
		if (r != -1) {
			show(buf, sizeof(buf), text, len);
			vh_violation("end-not-sticky", vh_cur_replay, "%s: call %d after the end returned %d on \"%s\"", what, i + 1, r, buf);
			return -1;
		}
	}
	VH_COUNT_N("hex_get_byte_calls", calls + 3);
	return n;
}

static void rt_case(long long c)
{
	vh_rng_t r;
	vh_rng_seed(&r, vh_opt.seed, 18, (uint64_t)c);
	char key[64];
	snprintf(key, sizeof(key), "rt:case=%lld", c);
	vh_case_key(key);
	vh_case_replay("--extra rt --only-case %lld", c);
	size_t len;
	uint32_t x = vh_below(&r, 10);
	if (c < 100)
		len = (size_t)c; /* every length 0..99 */
	else if (x < 5)
		len = 16 * (size_t)vh_below(&r, 257) + vh_below(&r, 5) - 2;
	else
		len = vh_below(&r, 200);
	if ((long)len < 0)
		len = 0;
	if (len > 4100)
		len = 4100;
	uint8_t *bytes = malloc(len ? len : 1);
	uint32_t style = vh_below(&r, 4);
	for (size_t i = 0; i < len; i++)
		bytes[i] = style == 0 ? (uint8_t)(i + c) : style == 1 ? (uint8_t)vh_next(&r) :
			   style == 2 ? (vh_below(&r, 2) ? 0xff : 0x00) : (uint8_t)(0xa0 + vh_below(&r, 0x60));
	char *buf = NULL;
	size_t tl = 0;
	FILE *f = open_memstream(&buf, &tl);
	int ret = hex_dump_to_file(f, bytes, len);
	fclose(f);
	vh_case_desc("round trip of %zu bytes (style %u)", len, style);
	if (ret != (int)len)
		vh_violation("dump-return-value", vh_cur_replay, "hex_dump_to_file returned %d for %zu bytes", ret, len);
	/* format: 16 lower-case pairs per line */
	size_t lines = (len + 15) / 16;
	bool fmt_ok = tl == 2 * len + lines;
	for (size_t i = 0, b = 0; fmt_ok && i < tl;) {
		size_t inl = (len - b) < 16 ? (len - b) : 16;
		for (size_t k = 0; k < 2 * inl; k++, i++)
			if (!(isdigit((unsigned char)buf[i]) || (buf[i] >= 'a' && buf[i] <= 'f')))
				fmt_ok = false;
		b += inl;
		if (buf[i++] != '\n')
			fmt_ok = false;
	}
	if (!fmt_ok) {
		char sh[400];
		show(sh, sizeof(sh), buf, tl < 120 ? tl : 120);
		vh_violation("dump-format", vh_cur_replay, "dump of %zu bytes is not 16 lower-case pairs per line: \"%s\"...", len, sh);
	}
	char *text = exact_copy(buf, tl);
	uint8_t *back = malloc(len + 8);
	long n = parse_all(text, tl, back, len + 8, "round trip");
	if (n >= 0 && ((size_t)n != len || memcmp(back, bytes, len))) {
		size_t d = 0;
		while (d < len && d < (size_t)n && back[d] == bytes[d])
			d++;
		vh_violation("round-trip-differs", vh_cur_replay, "dump of %zu bytes parsed back as %ld bytes; first difference at index %zu", len, n, d);
	}
	vh_evaluations++;
	VH_COUNT("round_trips");
	if (lines >= 2) {
		vh_distinct(vh_mix(vh_mix(0x18, len), style + 16 * (uint64_t)c));
		VH_COUNT("round_trips_multi_line");
	}
	if (vh_want_sample() && len > 16 && len < 40) {
		char sh[300];
		show(sh, sizeof(sh), buf, tl);
		vh_sample("rt: %zu bytes -> \"%s\" -> %ld bytes", len, sh, n);
	}
	free(back);
	text_free(text);
	free(buf);
	free(bytes);
}

static const char alphabet[] = "0123456789abcdefABCDEFxX:: \t\n\n\r,gG-";

static void fuzz_case(long long c)
{
	vh_rng_t r;
	vh_rng_seed(&r, vh_opt.seed, 118, (uint64_t)c);
	char key[64];
	snprintf(key, sizeof(key), "fuzz:case=%lld", c);
	vh_case_key(key);
	vh_case_replay("--extra fuzz --only-case %lld", c);
	size_t len = vh_below(&r, 10) < 7 ? vh_below(&r, 24) : vh_below(&r, 200);
	char *s = malloc(len + 1);
	uint32_t flavour = vh_below(&r, 4);
	for (size_t i = 0; i < len; i++) {
		char ch;
		if (flavour == 0)
			ch = alphabet[vh_below(&r, sizeof(alphabet) - 1)];
		else if (flavour == 1)
			ch = (char)(1 + vh_below(&r, 255)); /* any byte incl. >= 0x80 */
		else if (flavour == 2)
			ch = vh_below(&r, 8) ? alphabet[vh_below(&r, 22)] : alphabet[22 + vh_below(&r, sizeof(alphabet) - 23)];
		else
			ch = vh_below(&r, 12) ? "0x0X1aAfF9"[vh_below(&r, 10)] : (char)(1 + vh_below(&r, 255));
		s[i] = ch;
	}
	s[len] = 0;
	len = strlen(s);
	char *text = exact_copy(s, len);
	free(s);
	char sh[700];
	show(sh, sizeof(sh), text, len);
	vh_case_desc("fuzz string \"%s\"", sh);
	uint8_t out[128];
	long n = parse_all(text, len, out, sizeof(out), "fuzz");
	vh_evaluations++;
	/* non-trivial: ends inside a pair or right after 0x, or has >= 2 lines and a ':' */
	bool ends_mid = len >= 1 && isxdigit((unsigned char)text[len - 1]) &&
			(len == 1 || !isxdigit((unsigned char)text[len - 2]) ||
			 (len >= 2 && (text[len - 1] == 'x')));
	bool ends_0x = len >= 2 && text[len - 2] == '0' && text[len - 1] == 'x';
	bool multi = strchr(text, '\n') && strchr(text, ':');
	if (ends_mid || ends_0x || multi) {
		uint64_t h = 0x118;
		for (size_t i = 0; i < len; i++)
			h = vh_mix(h, (unsigned char)text[i]);
		vh_distinct(h);
		if (ends_0x)
			VH_COUNT("fuzz_strings_ending_after_0x");
		if (ends_mid)
			VH_COUNT("fuzz_strings_ending_inside_a_pair");
		if (multi)
			VH_COUNT("fuzz_strings_multiline_with_colon");
	}
	if (n > 0)
		VH_COUNT("fuzz_strings_yielding_bytes");
	VH_COUNT("fuzz_strings");
	if (vh_want_sample() && n > 1 && multi)
		vh_sample("fuzz: \"%s\" -> %ld bytes then -1", sh, n);
	text_free(text);
}

static void struct_case(long long c)
{
	vh_rng_t r;
	vh_rng_seed(&r, vh_opt.seed, 218, (uint64_t)c);
	char key[64];
	snprintf(key, sizeof(key), "struct:case=%lld", c);
	vh_case_key(key);
	vh_case_replay("--extra struct --only-case %lld", c);
	size_t nbytes = vh_below(&r, 70);
	uint8_t bytes[80];
	for (size_t i = 0; i < nbytes; i++)
		bytes[i] = vh_below(&r, 4) ? (uint8_t)vh_next(&r) : (uint8_t)(vh_below(&r, 2) ? 0x00 : 0x0a + vh_below(&r, 6) * 0x10);
	bool prefix = vh_below(&r, 2);
	bool trailing_nl = vh_below(&r, 2);
	vh_sb_t sb;
	vh_sb_reset(&sb);
	size_t i = 0;
	int lines = 0;
	/* "arbitrary white space": the whole isspace() class of the C locale except the newline, which ends a line */
	static const char ws_all[] = " \t \t \t\r\v\f";
	bool odd_ws = false;
#define WS_PICK() ({ char w_ = ws_all[vh_below(&r, sizeof(ws_all) - 1)]; if (w_ != ' ' && w_ != '\t') odd_ws = true; w_; })
	while (i < nbytes || lines == 0) {
		size_t inl = 1 + vh_below(&r, 20);
		if (prefix) {
			/* an address: any text without newline or colon, then ':' */
			static const char *const addr[] = { "0000", "0x0010", "deadbeef", "addr", "00 11", "7f", "" };
			vh_sb_add(&sb, "%s:", addr[vh_below(&r, 7)]);
		}
		for (size_t k = 0; k < inl && i < nbytes; k++, i++) {
			for (uint32_t w = vh_below(&r, 3); w; w--)
				vh_sb_add(&sb, "%c", WS_PICK());
			if (vh_below(&r, 3) == 0)
				vh_sb_add(&sb, "0x");
			const char *digs = vh_below(&r, 2) ? "0123456789abcdef" : "0123456789ABCDEF";
			const char *digs2 = vh_below(&r, 4) ? digs : "0123456789abcdef";
			vh_sb_add(&sb, "%c%c", digs[bytes[i] >> 4], digs2[bytes[i] & 15]);
		}
		for (uint32_t w = vh_below(&r, 3); w; w--)
			vh_sb_add(&sb, "%c", WS_PICK());
		lines++;
		if (i < nbytes || trailing_nl) {
			if (vh_below(&r, 6) == 0)
				vh_sb_add(&sb, "\r");
			vh_sb_add(&sb, "\n");
		}
		if (!prefix && vh_below(&r, 8) == 0 && i < nbytes)
			vh_sb_add(&sb, "\n"); /* blank line */
		if (nbytes == 0)
			break;
	}
	size_t len = (size_t)sb.n;
	if (len >= VH_TEXT - 2)
		return;
	char *text = exact_copy(sb.b, len);
	char sh[900];
	show(sh, sizeof(sh), text, len);
	vh_case_desc("structured text \"%s\"", sh);
	uint8_t out[160];
	long n = parse_all(text, len, out, sizeof(out), "structured");
	if (n >= 0 && ((size_t)n != nbytes || memcmp(out, bytes, nbytes))) {
		size_t d = 0;
		while (d < nbytes && d < (size_t)n && out[d] == bytes[d])
			d++;
		char k2[96];
		snprintf(k2, sizeof(k2), "structured-text-misparsed:%s", prefix ? "with-address-prefix" : "no-prefix");
		vh_violation(k2, vh_cur_replay, "text rendered from %zu bytes parsed as %ld bytes, first difference at %zu: \"%s\"", nbytes, n, d, sh);
	}
	vh_evaluations++;
	VH_COUNT("structured_texts");
	if (odd_ws)
		VH_COUNT("structured_texts_with_cr_vt_ff_separators");
	if (lines >= 2 && prefix) {
		uint64_t h = 0x218;
		for (size_t k = 0; k < len; k++)
			h = vh_mix(h, (unsigned char)text[k]);
		vh_distinct(h);
		VH_COUNT("structured_texts_multiline_with_prefix");
	}
	if (vh_want_sample() && lines >= 2 && prefix && len < 120)
		vh_sample("struct: \"%s\" -> %ld bytes", sh, n);
	text_free(text);
}

int main(int argc, char **argv)
{
	vh_init(argc, argv, "hex");
	const char *mode = vh_opt.extra ? vh_opt.extra : "rt";
	long long n = vh_opt.cases;
	void (*fn)(long long);
	if (!strcmp(mode, "rt")) {
		fn = rt_case;
		if (!n)
			n = vh_opt.thorough ? 200000 : 6000;
	} else if (!strcmp(mode, "fuzz")) {
		fn = fuzz_case;
		if (!n)
			n = vh_opt.thorough ? 20000000 : 300000;
	} else {
		fn = struct_case;
		if (!n)
			n = vh_opt.thorough ? 4000000 : 100000;
	}
	for (long long c = vh_opt.proc; c < n; c += vh_opt.nproc)
		if (vh_opt.only_case < 0 || c == vh_opt.only_case)
			fn(c);
	return vh_finish();
}

/*
 * C05 - ring buffer: one producer, one consumer.
 *
 * --extra seq   (E1, ASan build) sequential model check: every buf_len in
 *               {2..9,16,255,256,257}, every start index, random op strings
 * --extra co    (E2, shim build) producer and consumer "threads" under random
 *               and PCT schedules, buf_len 2..5, every start index
 * --extra isr   (E2) interrupt-style preemption in either direction: consumer
 *               ISR inside put/putchar, producer ISR inside get/empty, the
 *               handler injected before every schedule point
 *
 * Oracle: the successful gets are exactly a prefix of the successful puts (same
 * bytes, same order, values 0..255) and equal at drain; a put may fail only if
 * own successful puts minus gets known to have returned before the put was
 * invoked >= buf_len-1; a get may return -1 (ringbuf_empty true) only if puts
 * known to have returned before it was invoked minus own gets == 0; guard zones
 * on both sides of the storage / exactly-sized heap storage.
 */
#include "vh.h"

#include <librfn/ringbuf.h>

#ifdef RB_SHIM
#include "shim.h"
#include <setjmp.h>
void shim_set_abort_jmp(jmp_buf *j);
#else
/* sequential build: the schedule-control calls are no-ops */
#define shim_co_backoff() ((void)0)
#endif

#define GUARD 64
static ringbuf_t rb;
static uint8_t *arena, *store;
static size_t pre_guard;
static bool init_differs;
static size_t LEN;
static uint64_t seedmix;

static inline uint8_t byte_of(uint64_t k) { return (uint8_t)(k * 89u + (k >> 8) * 7u + seedmix); }

/* history counters (execution is serialised in every mode of this file) */
static uint64_t puts_ok, gets_ok;       /* completed */
static uint64_t put_fail, get_empty, empty_true;
static bool failed;
static char scen[VH_TEXT];
static vh_sb_t evlog;
static bool wrapped_w, wrapped_r;

static void viol(const char *key, const char *fmt, ...)
{
	char msg[600];
	va_list ap;
	va_start(ap, fmt);
	vsnprintf(msg, sizeof(msg), fmt, ap);
	va_end(ap);
	vh_violation(key, vh_cur_replay, "%s | %s | events: %s", msg, scen, evlog.b);
	failed = true;
}

static void setup(size_t len, unsigned start)
{
	free(arena);
	LEN = len;
	static unsigned setup_no;
	setup_no++;
#ifdef RB_SHIM
	pre_guard = 0;
	arena = malloc(len + 2 * GUARD);
	memset(arena, 0xA5, len + 2 * GUARD);
	store = arena + GUARD;
	shim_guard_clear();
	shim_guard_add(arena, GUARD);
	shim_guard_add(store + len, GUARD);
#else
	if (setup_no & 1) {
		arena = malloc(len); /* exactly sized: ASan red zones on both sides */
		store = arena;
		pre_guard = 0;
	} else {
		/* storage that starts 8 bytes into its block (the static initialiser is handed an expression) */
		arena = malloc(len + 8);
		memset(arena, 0xA5, 8);
		store = arena + 8;
		pre_guard = 8;
	}
	memset(store, 0xA5, len);
#endif
	if (setup_no & 1) {
		/* ringbuf_init describes a fresh ring whatever the descriptor held before: a previous life, or junk */
		if (setup_no & 2)
			memset(&rb, 0xA5, sizeof(rb));
		ringbuf_init(&rb, store, len);
		if (atomic_load(&rb.readi) != atomic_load(&rb.writei) || atomic_load(&rb.readi) >= len || rb.bufp != store || rb.buf_len != len) {
			viol("init-leaves-stale-state", "ringbuf_init on a used descriptor gave readi %u writei %u buf_len %zu (wanted an empty ring of %zu)",
			     (unsigned)atomic_load(&rb.readi), (unsigned)atomic_load(&rb.writei), rb.buf_len, len);
			init_differs = true;
		}
		VH_COUNT("rings_initialised_over_a_used_descriptor");
	} else {
		/* the static initialiser must describe the same ring; its arguments are expressions of non-byte
		 * pointer type and of lower precedence than a cast or a multiplication (macro hygiene) */
		uint32_t *words = (uint32_t *)(store - 8);
		size_t half = len / 2;
		ringbuf_t tmp = RINGBUF_VAR_INIT(words + 2, half + (len - half));
		memset(&rb, 0x5a, sizeof(rb));
		memcpy(&rb, &tmp, sizeof(rb));
		init_differs = rb.bufp != store || rb.buf_len != len;
		if (init_differs)
			viol("static-initialiser-differs", "RINGBUF_VAR_INIT(words + 2, a + b) gave bufp at offset %td and buf_len %zu, expected offset 0 and %zu",
			     rb.bufp - store, rb.buf_len, len);
	}
	atomic_store(&rb.readi, start % len);
	atomic_store(&rb.writei, start % len);
	puts_ok = gets_ok = put_fail = get_empty = empty_true = 0;
	failed = init_differs; /* do not exercise a ring that points at the wrong storage */
	init_differs = false;
	wrapped_w = wrapped_r = false;
	vh_sb_reset(&evlog);
}

/* ---- monitored operations ---- */
static bool mon_put(bool use_putchar)
{
	uint64_t g_before = gets_ok; /* gets known to have returned before this put is invoked */
	uint64_t k = puts_ok;
	bool ok = true;
	if (use_putchar)
		ringbuf_putchar(&rb, (char)byte_of(k));
	else
		ok = ringbuf_put(&rb, byte_of(k));
	if (failed)
		return ok;
	if (ok) {
		puts_ok = k + 1;
		if (evlog.n < VH_TEXT - 40)
			vh_sb_add(&evlog, "%s%" PRIu64 " ", use_putchar ? "P" : "p", k);
	} else {
		put_fail++;
		if (evlog.n < VH_TEXT - 40)
			vh_sb_add(&evlog, "p! ");
		if (k - g_before < LEN - 1)
			viol("put-failed-with-room",
			     "ringbuf_put failed although at most %" PRIu64 " bytes can have been unread during the call (buf_len %zu holds %zu)",
			     k - g_before, LEN, LEN - 1);
	}
	return ok;
}

static int mon_get(void)
{
	uint64_t p_before = puts_ok;
	uint64_t k = gets_ok;
	int c = ringbuf_get(&rb);
	if (failed)
		return c;
	if (c == -1) {
		get_empty++;
		if (evlog.n < VH_TEXT - 40)
			vh_sb_add(&evlog, "g! ");
		if (p_before > k)
			viol("get-empty-with-data", "ringbuf_get returned -1 although %" PRIu64 " byte(s) were unread before the call began",
			     p_before - k);
		return c;
	}
	if (evlog.n < VH_TEXT - 40)
		vh_sb_add(&evlog, "g%" PRIu64 " ", k);
	if (c < 0 || c > 255) {
		viol("get-value-out-of-range", "ringbuf_get returned %d", c);
		return c;
	}
	if (k >= puts_ok + 1) {
		/* a get can complete only for a byte whose put at least started; the put of byte k must have been invoked */
	}
	if ((uint8_t)c != byte_of(k)) {
		viol("get-wrong-byte", "get #%" PRIu64 " returned 0x%02x, the %" PRIu64 "-th byte put was 0x%02x (lost, duplicated, reordered or overwritten)",
		     k, c, k, byte_of(k));
		return c;
	}
	gets_ok = k + 1;
	return c;
}

static bool mon_empty(void)
{
	uint64_t p_before = puts_ok;
	uint64_t k = gets_ok;
	bool e = ringbuf_empty(&rb);
	if (failed)
		return e;
	if (e) {
		empty_true++;
		if (p_before > k)
			viol("empty-true-with-data", "ringbuf_empty returned true although %" PRIu64 " byte(s) were unread before the call began",
			     p_before - k);
	}
	return e;
}

static void final_checks(bool drained)
{
	if (failed)
		return;
#ifdef RB_SHIM
	if (shim_guard_hits()) {
		viol("access-outside-storage", "%s", shim_guard_last());
		return;
	}
	for (size_t i = 0; i < GUARD; i++)
		if (arena[i] != 0xA5 || store[LEN + i] != 0xA5) {
			viol("guard-bytes-modified", "bytes next to the ring's storage were modified");
			return;
		}
#endif
	for (size_t i = 0; i < pre_guard; i++)
		if (arena[i] != 0xA5) {
			viol("guard-bytes-modified", "bytes in front of the ring's storage were modified");
			return;
		}
	if (drained && gets_ok != puts_ok)
		viol("bytes-lost-at-drain", "%" PRIu64 " bytes were put, %" PRIu64 " could be got before the ring reported empty", puts_ok, gets_ok);
}

static void drain(void)
{
	for (size_t i = 0; i < LEN + 2 && !failed; i++)
		if (mon_get() == -1)
			break;
}

/* ================================================================ seq */
#ifndef RB_SHIM
static void seq_case(long long c)
{
	static const size_t lens[] = { 2, 3, 4, 5, 6, 7, 8, 9, 16, 255, 256, 257, 1000, 65535, 65536, 65537 };
	vh_rng_t r;
	vh_rng_seed(&r, vh_opt.seed, 5, (uint64_t)c);
	size_t len = lens[c % 16];
	unsigned start = (unsigned)((c / 16) % len);
	if (len > 300 && vh_below(&r, 2))
		start = (unsigned)(len - 1 - vh_below(&r, 40)); /* close to the wrap */
	char key[64];
	snprintf(key, sizeof(key), "seq:case=%lld", c);
	vh_case_key(key);
	vh_case_replay("--extra seq --only-case %lld", c);
	setup(len, start);
	snprintf(scen, sizeof(scen), "sequential, buf_len %zu, start index %u", len, start);
	vh_case_desc("%s", scen);
	int nops = (int)(3 * len) + (int)vh_below(&r, (uint32_t)(20 * (len < 40 ? len : 40)));
	if (len > 300 && (c / 16) % 40 != 0)
		nops = 200 + (int)vh_below(&r, 600); /* large rings are filled completely only once in 40 cases */
	int bias = (int)vh_below(&r, 3);
	for (int i = 0; i < nops && !failed; i++) {
		uint32_t x = vh_below(&r, 100);
		uint32_t pput = bias == 0 ? 65 : bias == 1 ? 35 : 50;
		if (x < pput) {
			bool room = puts_ok - gets_ok < LEN - 1;
			mon_put(room && vh_below(&r, 3) == 0);
		} else if (x < 92)
			mon_get();
		else
			mon_empty();
		if (puts_ok && (puts_ok + start) % LEN == 0)
			wrapped_w = true;
		if (gets_ok && (gets_ok + start) % LEN == 0)
			wrapped_r = true;
	}
	drain();
	final_checks(true);
	vh_evaluations++;
	VH_COUNT("sequential_histories");
	if (put_fail && get_empty && wrapped_w && wrapped_r) {
		uint64_t h = 5;
		for (int i = 0; i < evlog.n; i++)
			h = vh_mix(h, (unsigned char)evlog.b[i]);
		vh_distinct(vh_mix(h, len * 1000 + start));
		VH_COUNT("histories_nontrivial");
	}
	VH_COUNT_N("puts", puts_ok);
	VH_COUNT_N("put_refusals", put_fail);
	VH_COUNT_N("get_empty", get_empty);
	if (vh_want_sample() && len <= 4 && nops < 40)
		vh_sample("%s | %s", scen, evlog.b);
}
#endif

/* ================================================================ E2 */
#ifdef RB_SHIM
static uint64_t co_total;
static bool co_use_putchar;

static void producer_thread(void *a)
{
	(void)a;
	int spins = 0;
	while (puts_ok < co_total && !failed) {
		bool pc = co_use_putchar && (puts_ok % 3 == 1);
		if (!mon_put(pc)) {
			shim_co_backoff();
			if (++spins > 200000) {
				viol("producer-starved", "producer could not put for %d attempts with a live consumer", spins);
				return;
			}
		} else
			spins = 0;
	}
}
static void consumer_thread(void *a)
{
	(void)a;
	int spins = 0;
	while (gets_ok < co_total && !failed) {
		if ((gets_ok & 3) == 1 && mon_empty()) {
			shim_co_backoff();
			continue;
		}
		if (mon_get() == -1) {
			shim_co_backoff();
			if (++spins > 200000) {
				viol("consumer-starved", "consumer saw nothing for %d attempts with a live producer", spins);
				return;
			}
		} else
			spins = 0;
	}
}

static void co_case(long long c)
{
	vh_rng_t r;
	vh_rng_seed(&r, vh_opt.seed, 55, (uint64_t)c);
	size_t len = 2 + (size_t)(c % 4);
	unsigned start = (unsigned)((c / 4) % len);
	char key[64];
	snprintf(key, sizeof(key), "co:case=%lld", c);
	vh_case_key(key);
	vh_case_replay("--extra co --only-case %lld", c);
	shim_reset();
	setup(len, start);
	co_total = 4 + vh_below(&r, 40);
	co_use_putchar = vh_below(&r, 2);
	int policy = vh_below(&r, 3) == 0 ? SHIM_POLICY_PCT : SHIM_POLICY_RANDOM;
	static const uint32_t probs[] = { 1311, 6554, 32768 };
	uint32_t param = policy == SHIM_POLICY_PCT ? 1 + vh_below(&r, 3) : probs[vh_below(&r, 3)];
	snprintf(scen, sizeof(scen), "coroutines: buf_len %zu, start index %u, %" PRIu64 " bytes, %s, %s(%u)", len, start, co_total,
		 co_use_putchar ? "put+putchar" : "put", policy == SHIM_POLICY_PCT ? "PCT d=" : "random p/65536=", param);
	vh_case_desc("%s", scen);
	shim_co_begin(policy, param, vh_next(&r));
	shim_co_spawn(producer_thread, NULL);
	shim_co_spawn(consumer_thread, NULL);
	shim_enable(true);
	bool fin = shim_co_run(3000000);
	shim_enable(false);
	if (!fin && !failed)
		viol("livelock", "schedule exceeded 3000000 schedule points (%" PRIu64 " put, %" PRIu64 " got of %" PRIu64 ")", puts_ok, gets_ok,
		     co_total);
	drain();
	final_checks(true);
	vh_evaluations++;
	VH_COUNT("schedules_run");
	VH_COUNT_N("schedule_points", shim_total_points());
	VH_COUNT_N("context_switches", shim_co_switches());
	VH_COUNT_N("bytes_handed_over", gets_ok);
	VH_COUNT_N("put_refusals", put_fail);
	VH_COUNT_N("get_empty", get_empty + empty_true);
	vh_distinct2(shim_co_schedule_hash());
	if (put_fail && (get_empty || empty_true) && co_total + start >= len) {
		vh_distinct(vh_mix(shim_co_schedule_hash(), len * 100 + start));
		VH_COUNT("schedules_nontrivial");
	}
	if (vh_want_sample() && evlog.n < 300 && put_fail && get_empty && c % 7 == 2)
		vh_sample("%s | %s", scen, evlog.b);
}

/* ---- interrupt style ---- */
static int isr_role;  /* 0: ISR is the consumer, 1: ISR is the producer */
static int isr_ops;
static void isr(int level, int id, void *ctx)
{
	(void)level;
	(void)ctx;
	for (int i = 0; i < id + 1 && !failed; i++) {
		if (isr_role == 0) {
			if (i == 1)
				mon_empty();
			mon_get();
		} else
			mon_put(false); /* an ISR must not busy-wait: ringbuf_put only */
		isr_ops++;
	}
}

typedef struct {
	const char *name;
	int role;          /* who is interrupted: 0 = producer in main context (ISR consumes), 1 = consumer in main (ISR produces) */
	int prefill;       /* bytes put before the scripted part */
	const char *script; /* p put, P putchar (only scripted where room is certain), g get, e empty */
} rscen_t;
static const rscen_t rscen[] = {
	{ "put into empty ring", 0, 0, "p" },
	{ "put into ring with one free slot", 0, -2, "p" },
	{ "put into full ring", 0, -1, "p" },
	{ "putchar with room, then put", 0, 0, "Pp" },
	{ "puts across the wrap", 0, 1, "ppp" },
	{ "get from full ring", 1, -1, "g" },
	{ "get from ring with one byte", 1, 1, "g" },
	{ "get from empty ring", 1, 0, "g" },
	{ "empty then get on one byte", 1, 1, "eg" },
	{ "gets across the wrap", 1, -1, "ggg" },
	{ "empty on empty ring then get", 1, 0, "eg" },
};
#define NRSCEN (sizeof(rscen) / sizeof(rscen[0]))

static jmp_buf abort_env;
static uint64_t run_rscen(const rscen_t *sc, size_t len, unsigned start)
{
	setup(len, start);
	shim_enable(false);
	int pre = sc->prefill >= 0 ? sc->prefill : (int)len + sc->prefill; /* -1: full (len-1 bytes), -2: one free slot */
	if (pre > (int)len - 1)
		pre = (int)len - 1;
	if (pre < 0)
		pre = 0;
	for (int i = 0; i < pre; i++)
		mon_put(false);
	isr_role = sc->role == 0 ? 0 : 1;
	isr_ops = 0;
	shim_set_isr(isr, NULL);
	shim_set_point_limit(500000);
	shim_set_abort_jmp(&abort_env);
	uint64_t pts = 0;
	if (setjmp(abort_env) == 0) {
		shim_enable(true);
		for (const char *s = sc->script; *s && !failed; s++) {
			switch (*s) {
			case 'p': mon_put(false); break;
			case 'P': mon_put(true); break;
			case 'g': mon_get(); break;
			default: mon_empty(); break;
			}
		}
		shim_enable(false);
		pts = shim_points(0);
	} else {
		viol("livelock", "a library call did not finish within 500000 schedule points");
	}
	shim_set_abort_jmp(NULL);
	shim_enable(false);
	drain();
	final_checks(true);
	return pts;
}

static void isr_sweep(void)
{
	uint64_t caseno = 0;
	for (unsigned si = 0; si < NRSCEN; si++)
		for (size_t len = 2; len <= 5; len++)
			for (unsigned start = 0; start < len; start++) {
				const rscen_t *sc = &rscen[si];
				shim_reset();
				snprintf(scen, sizeof(scen), "interrupt sweep '%s' (buf_len %zu, start %u, script %s), no ISR", sc->name, len, start, sc->script);
				char key[96];
				snprintf(key, sizeof(key), "isr:scenario=%u,len=%zu,start=%u,dry", si, len, start);
				vh_case_key(key);
				vh_case_desc("%s", scen);
				vh_case_replay("--extra isr");
				uint64_t P = run_rscen(sc, len, start);
				vh_evaluations++;
				VH_COUNT("scenario_geometries");
				for (int id = 0; id < 3; id++)
					for (uint64_t p = 0; p < P && vh_nviol < 8; p++, caseno++) {
						if ((caseno % (uint64_t)vh_opt.nproc) != (uint64_t)vh_opt.proc)
							continue;
						shim_reset();
						shim_plan_add(0, 0, p, id);
						snprintf(scen, sizeof(scen), "interrupt sweep '%s' (buf_len %zu, start %u, script %s), %s ISR doing %d op(s) before main point %" PRIu64 " of %" PRIu64,
							 sc->name, len, start, sc->script, sc->role == 0 ? "consumer" : "producer", id + 1, p, P);
						snprintf(key, sizeof(key), "isr:scenario=%u,len=%zu,start=%u,ops=%d,p=%" PRIu64, si, len, start, id + 1, p);
						vh_case_key(key);
						vh_case_desc("%s", scen);
						run_rscen(sc, len, start);
						vh_evaluations++;
						VH_COUNT("single_isr_placements");
						vh_distinct(vh_mix(vh_mix(vh_mix(0x55, si * 64 + len * 8 + start), (uint64_t)id), p));
						if (vh_want_sample() && p == 2 && len == 2 && id == 1)
							vh_sample("%s | %s", scen, evlog.b);
					}
			}
	vh_exhaustive = vh_nviol == 0;
	snprintf(vh_note, sizeof(vh_note), "every placement of one interrupt (1-3 operations of the opposite role) in %u scenarios x buf_len 2..5 x every start index",
		 (unsigned)NRSCEN);
}
#endif

#ifndef RB_SHIM
/* "long": more than 2^32 bytes through a small ring by the API alone, two to three bytes always unread, so that
 * anything that counts bytes in 32 bits passes its overflow with data in flight */
static void long_haul(void)
{
	static const size_t lens[] = { 5, 6, 7, 12, 3, 9, 10, 11 };
	size_t len = lens[vh_opt.proc % 8];
	uint64_t total = (1ull << 32) + 4096;
	char key[64];
	snprintf(key, sizeof(key), "long:len=%zu", len);
	vh_case_key(key);
	vh_case_budget(3600);
	vh_case_replay("--extra long");
	setup(len, (unsigned)(vh_opt.proc % len));
	snprintf(scen, sizeof(scen), "long haul: 2^32+4096 bytes through a %zu-byte ring, %d bytes kept unread", len, len >= 4 ? 2 : 1);
	vh_case_desc("%s", scen);
	int keep = len >= 4 ? 2 : 1;
	uint64_t p = 0, g = 0;
	for (int i = 0; i < keep; i++, p++)
		if (!ringbuf_put(&rb, byte_of(p))) {
			viol("put-failed-with-room", "put #%" PRIu64 " refused on a ring holding %d of %zu", p, i, len - 1);
			return;
		}
	for (; g + (uint64_t)keep < total; p++, g++) {
		if (!ringbuf_put(&rb, byte_of(p))) {
			viol("put-failed-with-room", "after %" PRIu64 " bytes: put refused with %d bytes unread in a ring that holds %zu", p, keep, len - 1);
			return;
		}
		int c = ringbuf_get(&rb);
		if (c != (int)byte_of(g)) {
			viol("get-wrong-byte", "after %" PRIu64 " bytes: get returned %d, the %" PRIu64 "-th byte put was 0x%02x", g, c, g, byte_of(g));
			return;
		}
		if ((g & 0xffffff) == 0 && ringbuf_empty(&rb)) {
			viol("empty-true-with-data", "after %" PRIu64 " bytes: ringbuf_empty with %d bytes unread", g, keep);
			return;
		}
	}
	puts_ok = p;
	gets_ok = g;
	drain();
	final_checks(true);
	vh_evaluations++;
	VH_COUNT("long_hauls");
	VH_COUNT_N("bytes_through_the_ring", p);
	vh_distinct(vh_mix(0x10e, len));
	vh_distinct(vh_mix(0x10f, len));
	vh_sample("%s: all bytes arrived in order", scen);
}
#endif

int main(int argc, char **argv)
{
	vh_init(argc, argv, "rb");
	const char *mode = vh_opt.extra ? vh_opt.extra : "seq";
	vh_rng_t r;
	vh_rng_seed(&r, vh_opt.seed, 505, 0);
	seedmix = vh_next(&r) & 0xff;
#ifndef RB_SHIM
	if (!strcmp(mode, "long")) {
		long_haul();
		return vh_finish();
	}
	long long n = vh_opt.cases ? vh_opt.cases : (vh_opt.thorough ? 4000000 : 100000);
	for (long long c = vh_opt.proc; c < n && vh_nviol < 8; c += vh_opt.nproc)
		if (vh_opt.only_case < 0 || c == vh_opt.only_case)
			seq_case(c);
#else
	if (!strcmp(mode, "isr"))
		isr_sweep();
	else {
		long long n = vh_opt.cases ? vh_opt.cases : (vh_opt.thorough ? 2000000 : 60000);
		for (long long c = vh_opt.proc; c < n && vh_nviol < 8; c += vh_opt.nproc)
			if (vh_opt.only_case < 0 || c == vh_opt.only_case)
				co_case(c);
	}
#endif
	return vh_finish();
}

/*
 * C01 / C02 / C03(a) - the fibre scheduler against the reference model
 * models/refsched.h, in lock-step, over generated histories.
 *
 * Fibre bodies are protothreads that log START (entered at the first
 * statement) or RESUME (continued after a blocking point), then perform 0..3
 * scripted inner actions (fibre_run / fibre_run_atomic / fibre_kill on any
 * fibre, at most one unsatisfied fibre_timeout) and return a scripted state.
 *
 * --extra c01       queue discipline; time arithmetic trivial
 * --extra c01sys    all histories of length L over {run,run_atomic,kill}x{A,B,C}
 *                   + pass, each fibre with a fixed return policy in {Y,W,E}
 * --extra c02       timers: hostile placement of the time base (windows
 *                   straddling 2^32 and 2^31), equal dues, cancel by run/kill;
 *                   no interrupt-context requests
 * ...:c03           same workloads, but only the returned wake-up time is
 *                   judged (other divergences end the history, counted)
 */
#include "vh.h"

#include <librfn/fibre.h>
#include <librfn/util.h>
#include "refsched.h"

void fibre_verif_reset(void);

#define NF 6
static fibre_t fibres[NF];
static refsched_t rs;
static int nf;

static vh_sb_t trace;
static bool failed;       /* a recorded violation ended this history */
static bool cut;          /* ended by a divergence that is not this check's clause */
static bool only_wakeup;  /* c03 flavour */
static const char *mode_tag;

/* dispatch bookkeeping for the pass in progress */
static int expect_fibre;  /* model's prediction, -1 idle */
static int dispatched;    /* what really ran, -1 none */
static int ret_state;
static vh_rng_t *cur_rng;
static int64_t T;         /* unwrapped current time */
static bool hostile_time;
static int fixed_policy[NF]; /* c01sys: -1 = scripted */
static bool no_inner, no_atomic;

static int fid(fibre_t *f)
{
	return (int)(f - fibres);
}

static void viol(const char *family, const char *clause, const char *fmt, ...)
{
	char msg[600], key[160];
	va_list ap;
	va_start(ap, fmt);
	vsnprintf(msg, sizeof(msg), fmt, ap);
	va_end(ap);
	if (only_wakeup && strcmp(family, "wakeup")) {
		cut = true;
		return;
	}
	snprintf(key, sizeof(key), "%s:%s", family, clause);
	vh_violation(key, vh_cur_replay, "%s | %d fibres, history (%s): %s", msg, nf, mode_tag, trace.b);
	failed = true;
}
#define STOP (failed || cut)

/* ---- inner/outer operations, mirrored in the model ---- */

static void op_run(int x, const char *who)
{
	vh_sb_add(&trace, "%srun(%c) ", who, 'A' + x);
	rs_run(&rs, x);
	fibre_run(&fibres[x]);
	VH_COUNT("op_fibre_run");
}
static void op_run_atomic(int x, const char *who)
{
	bool want = rs_run_atomic(&rs, x);
	bool got = fibre_run_atomic(&fibres[x]);
	vh_sb_add(&trace, "%srun_atomic(%c)=%d ", who, 'A' + x, got);
	VH_COUNT("op_fibre_run_atomic");
	if (got != want)
		viol("dispatch", "run_atomic-return-value", "fibre_run_atomic(%c) returned %d with %d requests pending, expected %d",
		     'A' + x, got, rs.natom, want);
}
static void op_kill(int x, const char *who)
{
	bool want = rs_kill(&rs, x);
	bool got = fibre_kill(&fibres[x]);
	vh_sb_add(&trace, "%skill(%c)=%d ", who, 'A' + x, got);
	VH_COUNT("op_fibre_kill");
	if (got != want)
		viol("dispatch", "kill-return-value", "fibre_kill(%c) returned %d, the model had %s pending", 'A' + x, got,
		     want ? "a run request or timeout" : "nothing");
}
static void op_timeout(int self, int64_t due)
{
	bool want = rs_timeout(&rs, self, due);
	bool got = fibre_timeout((uint32_t)due);
	vh_sb_add(&trace, "%c:timeout(now%+" PRId64 ")=%d ", 'A' + self, due - T, got);
	VH_COUNT("op_fibre_timeout");
	if (got != want)
		viol("timeout", "return-value", "fibre_timeout(due = now%+" PRId64 ") returned %d at time 0x%08x (unwrapped %" PRId64 "), expected %d",
		     due - T, got, (uint32_t)T, T, want);
}

static int64_t pick_due(vh_rng_t *r)
{
	if (!hostile_time) {
		uint32_t x = vh_below(r, 10);
		if (x < 2)
			return T - (int64_t)vh_below(r, 6); /* already passed */
		if (x < 8)
			return T + 1 + (int64_t)vh_below(r, 20);
		return T + 1000000 + (int64_t)vh_below(r, 1000);
	}
	uint32_t x = vh_below(r, 12);
	if (x == 0)
		return T;
	if (x == 1)
		return T - 1 - (int64_t)vh_below(r, 3);
	if (x < 4)
		return T + 1 + (int64_t)vh_below(r, 2);
	if (x < 8)
		return T + 1 + (int64_t)vh_below(r, 40);
	if (x == 8) { /* equal to another sleeper's */
		for (int i = 0; i < nf; i++)
			if (rs.sleep[i].active)
				return rs.sleep[i].due;
		return T + 5;
	}
	if (x == 9)
		return T + 0x7fffffffll - (int64_t)vh_below(r, 2);
	if (x == 10)
		return T + 1000 + (int64_t)vh_below(r, 100000);
	return T + 2 + (int64_t)vh_below(r, 3);
}

/* the scripted part of one dispatch of fibre `self`; returns the state to return */
static int run_script(int self)
{
	vh_rng_t *r = cur_rng;
	int state;
	if (fixed_policy[self] >= 0)
		state = fixed_policy[self];
	else {
		uint32_t x = vh_below(r, 100);
		state = x < 35 ? RS_Y : x < 80 ? RS_W : x < 95 ? RS_E : RS_F;
	}
	if (!no_inner) {
		uint32_t x = vh_below(r, 10);
		int nact = x < 4 ? 0 : x < 7 ? 1 : x < 9 ? 2 : 3;
		if (hostile_time && nact == 0 && vh_below(r, 2))
			nact = 1;
		bool timeout_used = false;
		for (int a = 0; a < nact && !STOP; a++) {
			uint32_t k = vh_below(r, hostile_time ? 10 : 12);
			int x2 = (int)vh_below(r, (uint32_t)nf);
			if (hostile_time) {
				/* mostly sleep; now and then the fibre (or another) is made runnable first, so that the
				 * timeout is asked for by a fibre that already has a reason to run */
				if (k == 4)
					x2 = self;
				k = k < 4 ? 9 : k < 6 ? 0 : k;
			}
			if (k < 3)
				op_run(x2, "in:");
			else if (k < 5 && !no_atomic)
				op_run_atomic(x2, "in:");
			else if (k < 7)
				op_kill(x2, "in:");
			else if (!timeout_used) {
				int64_t due = pick_due(r);
				op_timeout(self, due);
				if (due > T)
					timeout_used = true;
				if (due > T && !rs_in_runq(&rs, self) && vh_below(r, 4))
					state = RS_W; /* the usual pattern: sleep */
			}
		}
	}
	return state;
}

static void entry(int self, bool at_start)
{
	dispatched = self;
	vh_sb_add(&trace, "[%c %s] ", 'A' + self, at_start ? "START" : "RESUME");
	VH_COUNT("dispatches_observed");
	if (self != expect_fibre) {
		const char *clause;
		if (expect_fibre < 0) {
			if (rs.sleep[self].active)
				clause = "timeout-fired-early";
			else if (rs.has_cancelled[self])
				clause = "dispatch-of-fibre-with-cancelled-timeout";
			else
				clause = "dispatch-without-reason";
		} else if (rs.sleep[self].active)
			clause = "timeout-fired-early";
		else if (rs.released_by_timer[expect_fibre] && rs.released_by_timer[self])
			clause = "expiry-order";
		else if (!rs_in_runq(&rs, self))
			clause = rs.has_cancelled[self] ? "dispatch-of-fibre-with-cancelled-timeout" : "dispatch-without-reason";
		else
			clause = "fifo-order";
		bool timer_related = !strncmp(clause, "timeout", 7) || !strcmp(clause, "expiry-order") || strstr(clause, "cancelled");
		viol(timer_related ? "timeout" : "dispatch", clause,
		     "pass at time 0x%08x dispatched fibre %c, the model expects %c%s", (uint32_t)T, 'A' + self,
		     expect_fibre < 0 ? '-' : 'A' + expect_fibre, expect_fibre < 0 ? " (idle)" : "");
		return;
	}
	if (at_start != rs.restart[self]) {
		viol("dispatch", at_start ? "restarted-instead-of-resuming" : "resumed-instead-of-restarting",
		     "fibre %c %s but the model says it must %s", 'A' + self, at_start ? "entered at its first statement" : "resumed after its last blocking point",
		     rs.restart[self] ? "restart from the beginning (first dispatch, or it exited/failed)" : "resume");
	} else if (at_start && rs.flags & 0)
		;
	if (at_start && self == expect_fibre && rs.regctr + 1 > 0 && !rs.restart[self])
		;
}

static int body(fibre_t *f)
{
	int self = fid(f);
	PT_BEGIN_FIBRE(f);
	entry(self, true);
	for (;;) {
		if (STOP)
			PT_EXIT();
		ret_state = run_script(self);
		if (ret_state == RS_Y)
			PT_YIELD();
		else if (ret_state == RS_W)
			PT_WAIT();
		else if (ret_state == RS_E)
			PT_EXIT();
		else
			PT_FAIL();
		entry(self, false);
	}
	PT_END();
}

static void do_pass(void)
{
	if (STOP)
		return;
	bool restart_seen = false;
	expect_fibre = rs_pass_begin(&rs, T);
	if (expect_fibre >= 0 && rs.restart[expect_fibre] && rs.regctr + rs.nrun + 1 > 0) {
		/* a restart after exit (not the very first dispatch) */
		restart_seen = true;
	}
	(void)restart_seen;
	dispatched = -1;
	ret_state = -1;
	vh_sb_add(&trace, "pass(t=%s%" PRId64 ") ", "", T);
	uint32_t wake = fibre_scheduler_next((uint32_t)T);
	VH_COUNT("passes");
	if (STOP)
		return;
	if (dispatched < 0 && expect_fibre >= 0) {
		bool tr = rs.released_by_timer[expect_fibre];
		viol(tr ? "timeout" : "dispatch", tr ? "timeout-late" : "dispatch-missing",
		     "pass at time 0x%08x (unwrapped %" PRId64 ") dispatched nothing, the model expects fibre %c%s", (uint32_t)T, T,
		     'A' + expect_fibre, tr ? " (its timeout is due)" : "");
		return;
	}
	fibre_t *self = fibre_self();
	int sid = self ? fid(self) : -1;
	if (sid != expect_fibre) {
		viol("dispatch", "fibre_self", "fibre_self() names %c after a pass that dispatched %c", sid < 0 ? '-' : 'A' + sid,
		     expect_fibre < 0 ? '-' : 'A' + expect_fibre);
		return;
	}
	if (expect_fibre >= 0) {
		vh_sb_add(&trace, "->%c ", "YWEF"[ret_state]);
		rs_pass_end(&rs, ret_state);
	} else {
		vh_sb_add(&trace, "->idle ");
	}
	bool from_timer;
	uint32_t want = rs_expected_wakeup(&rs, &from_timer);
	VH_COUNT("wakeup_values_compared");
	if (wake != want) {
		const char *clause = want == (uint32_t)T ? "oversleeps-runnable-work" :
				     from_timer ? "not-the-earliest-due-time" : "not-unbounded-sleep";
		viol("wakeup", clause,
		     "fibre_scheduler_next(0x%08x) returned 0x%08x, expected 0x%08x (%s; run queue %d, yielder %d, pending requests %d)",
		     (uint32_t)T, wake, want, want == (uint32_t)T ? "work is runnable" : from_timer ? "earliest pending due time" : "nothing pending",
		     rs.nrun, rs.prev_yielder, rs.natom);
	}
}

static void advance_time(vh_rng_t *r)
{
	int64_t lim = INT64_MAX;
	/* scope: t stays within 2^31 ticks of every pending due time */
	for (int i = 0; i < nf; i++)
		if (rs.sleep[i].active && rs.sleep[i].due + 0x7ffffffell < lim)
			lim = rs.sleep[i].due + 0x7ffffffell;
	int64_t nt = T;
	if (!hostile_time) {
		uint32_t x = vh_below(r, 10);
		nt = T + (x < 3 ? 0 : x < 7 ? 1 : (int64_t)vh_below(r, 12));
	} else {
		uint32_t x = vh_below(r, 12);
		int64_t nearest = -1;
		for (int i = 0; i < nf; i++)
			if (rs.sleep[i].active && rs.sleep[i].due > T && (nearest < 0 || rs.sleep[i].due < nearest))
				nearest = rs.sleep[i].due;
		if (x < 2)
			nt = T;
		else if (x < 4)
			nt = T + 1;
		else if (x < 6 && nearest >= 0)
			nt = nearest; /* exactly to a due */
		else if (x < 8 && nearest >= 0)
			nt = nearest - 1; /* one before */
		else if (x < 10)
			nt = T + (int64_t)vh_below(r, 50);
		else if (x == 10 && nearest >= 0)
			nt = nearest + (int64_t)vh_below(r, 5);
		else
			nt = T + (int64_t)vh_below(r, 1u << 30);
	}
	if (nt > lim)
		nt = lim;
	if (nt < T)
		nt = T;
	if ((uint32_t)nt < (uint32_t)T || (((uint32_t)nt ^ (uint32_t)T) & 0x80000000u))
		rs.flags |= RSF_WRAP_WINDOW;
	T = nt;
}

static void begin_history(int fibres_n)
{
	nf = fibres_n;
	fibre_verif_reset();
	static unsigned hist_no;
	hist_no++;
	for (int i = 0; i < NF; i++) {
		/* alternate between the dynamic and the static initialiser: they must describe the same fibre */
		if ((hist_no + (unsigned)i) & 1) {
			if (hist_no & 2)
				memset(&fibres[i], 0x5a, sizeof(fibres[i])); /* junk instead of the previous history's state */
			fibre_init(&fibres[i], body);
		} else {
			fibre_t tmp = FIBRE_VAR_INIT(body);
			memset(&fibres[i], 0x5a, sizeof(fibres[i]));
			fibres[i] = tmp;
		}
		fixed_policy[i] = -1;
	}
	rs_init(&rs, nf);
	vh_sb_reset(&trace);
	failed = cut = false;
}

static void end_history(uint64_t sigseed)
{
	vh_evaluations++;
	if (cut)
		VH_COUNT("histories_cut_by_divergence_outside_this_check");
	uint32_t nt_mask = hostile_time ? (RSF_MULTI_EXPIRY | RSF_WRAP_WINDOW | RSF_CANCELLED_SLEEPER) :
					   (RSF_COALESCED | RSF_TWO_ATOMIC_PENDING | RSF_KILL_TRUE | RSF_RESTART | RSF_YIELDER_WITH_SLEEPER);
	if (rs.flags & RSF_COALESCED)
		VH_COUNT("histories_with_coalesced_request");
	if (rs.flags & RSF_TWO_ATOMIC_PENDING)
		VH_COUNT("histories_with_two_atomic_requests_pending");
	if (rs.flags & RSF_KILL_TRUE)
		VH_COUNT("histories_with_effective_kill");
	if (rs.flags & RSF_YIELDER_WITH_SLEEPER)
		VH_COUNT("histories_with_lone_yielder_beside_sleeper");
	if (rs.flags & RSF_MULTI_EXPIRY)
		VH_COUNT("histories_with_several_expiries_in_one_pass");
	if (rs.flags & RSF_EQUAL_DUE)
		VH_COUNT("histories_with_equal_due_times");
	if (rs.flags & RSF_CANCELLED_SLEEPER)
		VH_COUNT("histories_with_cancelled_sleeper");
	if (rs.flags & RSF_WRAP_WINDOW)
		VH_COUNT("histories_crossing_a_wrap_point");
	if (rs.flags & RSF_ATOMIC_REFUSED)
		VH_COUNT("histories_with_refused_atomic_request");
	if (rs.flags & RSF_WAKEUP_FROM_TIMER)
		VH_COUNT("histories_with_wakeup_taken_from_timer");
	if (rs.flags & nt_mask) {
		uint64_t h = sigseed;
		for (int i = 0; i < trace.n; i++)
			h = vh_mix(h, (unsigned char)trace.b[i]);
		vh_distinct(h);
		VH_COUNT("histories_nontrivial");
	}
}

static void random_history(long long c)
{
	vh_rng_t r;
	vh_rng_seed(&r, vh_opt.seed, hostile_time ? 2 : 1, (uint64_t)c);
	cur_rng = &r;
	char key[64];
	snprintf(key, sizeof(key), "%s:case=%lld", mode_tag, c);
	vh_case_key(key);
	vh_case_replay("--extra %s --only-case %lld", vh_opt.extra, c);
	begin_history(1 + (int)vh_below(&r, NF));
	/* time base */
	if (!hostile_time) {
		/* dispatch order must not depend on where the tick counter stands: one history in three starts a few
		 * hundred ticks below the 2^32 wrap or the 2^31 sign flip, so that pending due times straddle it */
		uint32_t b = vh_below(&r, 6);
		T = 100 + (int64_t)vh_below(&r, 1000);
		if (b == 0)
			T = (1ll << 32) * 3 - (int64_t)vh_below(&r, 400);
		else if (b == 1)
			T = (1ll << 32) * 3 + (1ll << 31) - (int64_t)vh_below(&r, 400);
		if (b < 2)
			VH_COUNT("histories_starting_just_below_a_wrap_point");
	} else {
		static const int64_t deltas[] = { 0, 1, 2, 50, 1000 };
		int64_t d = deltas[vh_below(&r, 5)];
		switch (vh_below(&r, 4)) {
		case 0: T = (1ll << 32) * 3 - d; break;          /* just below a 2^32 wrap */
		case 1: T = (1ll << 32) * 3 + (1ll << 31) - d; break; /* just below the sign flip */
		case 2: T = (1ll << 32) * 3 + (int64_t)d; break;  /* at / just after zero */
		default: T = (1ll << 32) * 3 + (int64_t)(vh_next(&r) & 0xffffffffu); break;
		}
	}
	vh_sb_add(&trace, "base=0x%08x ", (uint32_t)T);
	int nops = 4 + (int)vh_below(&r, 61);
	for (int i = 0; i < nops && !STOP; i++) {
		uint32_t x = vh_below(&r, 100);
		int f = (int)vh_below(&r, (uint32_t)nf);
		if (x < 55 || i == nops - 1) {
			advance_time(&r);
			do_pass();
		} else if (x < 75)
			op_run(f, "");
		else if (x < 88 && !no_atomic)
			op_run_atomic(f, "");
		else if (x < 97)
			op_kill(f, "");
		else if (!no_atomic) {
			/* burst of atomic requests */
			for (int k = 0, n = 2 + (int)vh_below(&r, 8); k < n && !STOP; k++)
				op_run_atomic((int)vh_below(&r, (uint32_t)nf), "");
		}
		vh_case_desc("%s", trace.b);
	}
	/* quiesce: a few more passes so pending work and timers are observed */
	for (int i = 0; i < nf + 3 && !STOP; i++) {
		advance_time(&r);
		do_pass();
	}
	end_history(c);
	if (vh_want_sample() && trace.n < 500 && (rs.flags & (RSF_COALESCED | RSF_MULTI_EXPIRY)) && c % 5 == 1)
		vh_sample("%s", trace.b);
}

static void systematic(void)
{
	int L = vh_opt.thorough ? 6 : 5;
	if (vh_opt.cases)
		L = (int)vh_opt.cases;
	uint64_t total = 1;
	for (int i = 0; i < L; i++)
		total *= 10;
	no_inner = true;
	vh_rng_t r;
	vh_rng_seed(&r, vh_opt.seed, 3, 0);
	cur_rng = &r;
	for (int pol = 0; pol < 27; pol++)
		for (uint64_t idx = (uint64_t)vh_opt.proc; idx < total; idx += (uint64_t)vh_opt.nproc) {
			uint64_t caseno = (uint64_t)pol * total + idx;
			if (vh_opt.only_case >= 0 && caseno != (uint64_t)vh_opt.only_case)
				continue;
			char key[64];
			snprintf(key, sizeof(key), "%s:case=%" PRIu64, mode_tag, caseno);
			vh_case_key(key);
			vh_case_replay("--extra %s --cases %d --only-case %" PRIu64, vh_opt.extra, L, caseno);
			begin_history(3);
			static const int pols[3] = { RS_Y, RS_W, RS_E };
			fixed_policy[0] = pols[pol % 3];
			fixed_policy[1] = pols[(pol / 3) % 3];
			fixed_policy[2] = pols[pol / 9];
			T = 1000;
			vh_sb_add(&trace, "policies A=%c B=%c C=%c: ", "YWE"[pol % 3], "YWE"[(pol / 3) % 3], "YWE"[pol / 9]);
			uint64_t x = idx;
			for (int i = 0; i < L && !STOP; i++) {
				int o = (int)(x % 10);
				x /= 10;
				if (o == 9) {
					T++;
					do_pass();
				} else if (o < 3)
					op_run(o, "");
				else if (o < 6)
					op_run_atomic(o - 3, "");
				else
					op_kill(o - 6, "");
			}
			for (int i = 0; i < 5 && !STOP; i++) {
				T++;
				do_pass();
			}
			end_history(caseno);
			if (vh_want_sample() && caseno % 200003 == 77 && trace.n < 600)
				vh_sample("%s", trace.b);
			if (vh_nviol >= 6)
				return;
		}
	vh_exhaustive = vh_nviol == 0;
	snprintf(vh_note, sizeof(vh_note),
		 "all strings of length %d over {run,run_atomic,kill}x{A,B,C}+pass for all 27 return policies, then 5 passes", L);
}

int main(int argc, char **argv)
{
	vh_init(argc, argv, "sched_seq");
	if (!vh_opt.extra)
		vh_opt.extra = "c01";
	only_wakeup = strstr(vh_opt.extra, ":c03") != NULL;
	mode_tag = !strncmp(vh_opt.extra, "c01sys", 6) ? "c01sys" : !strncmp(vh_opt.extra, "c02", 3) ? "c02" : "c01";
	if (!strcmp(mode_tag, "c01sys")) {
		systematic();
		return vh_finish();
	}
	hostile_time = !strcmp(mode_tag, "c02");
	no_atomic = false; /* interrupt-context requests are one of the "other means" of C02 as well */
	long long n = vh_opt.cases ? vh_opt.cases : (vh_opt.thorough ? 30000000 : 300000);
	for (long long c = vh_opt.proc; c < n; c += vh_opt.nproc) {
		if (vh_opt.only_case >= 0 && c != vh_opt.only_case)
			continue;
		random_history(c);
		if (vh_nviol >= 6)
			break;
	}
	return vh_finish();
}

/*
 * C04 - message queue: many concurrent senders, one receiver (engine E2).
 *
 * messageq.c is compiled with -fsanitize=thread and linked against rt/shim.c,
 * so every atomic operation and every plain access to queue state is a
 * schedule point.  This file is NOT instrumented.
 *
 * --extra co    ucontext "threads": S senders (claim, fill, send) and one
 *               receiver (receive, check, release; sometimes lagging) under
 *               random and PCT schedules
 * --extra isr   run-to-completion nested interrupts: a main-context script
 *               (sender or receiver role) with an ISR sender injected before
 *               every schedule point (single sweep) and a second ISR inside
 *               the first (nested-pair sweep), queue empty / part-full / full
 *
 * Oracle (client boundary): slot ownership table, payload patterns with unique
 * (sender, seq) ids, exactly-once / no-loss, real-time claim order, spurious
 * NULL claims, free-buffer conservation at quiescence, guard zones.
 */
#include "vh.h"
#include "shim.h"

#include <setjmp.h>
#include <librfn/messageq.h>

void shim_set_abort_jmp(jmp_buf *j);

#define MAXD 32
#define MAXS 8
#define MAXMSG 1024

enum { S_FREE, S_CLAIMED, S_SENT, S_RECEIVED };

static messageq_t q;
static uint8_t *arena; /* guard | storage | slack+guard */
static uint8_t *store;
static int D, M;
#define GUARD 64

static struct {
	int state, owner;
	uint32_t id;
} slot[MAXD];

typedef struct {
	uint32_t id;
	uint64_t claim_inv, claim_ret;
	bool sent, received;
} msgrec_t;
static msgrec_t msgs[MAXMSG];
static int nmsgs;

static uint64_t clk;
static int in_use; /* claims invoked and not yet failed/released(returned) */
static struct {
	bool open;
	int max_seen;
} openclaim[MAXS + 4];
static uint64_t max_inv_received;
static int received_total, null_claims, overlapped_claims, full_while_inflight;
static bool failed;
static char scen[VH_TEXT];
static vh_sb_t evlog;

static void viol(const char *key, const char *fmt, ...)
{
	char msg[700];
	va_list ap;
	va_start(ap, fmt);
	vsnprintf(msg, sizeof(msg), fmt, ap);
	va_end(ap);
	vh_violation(key, vh_cur_replay, "%s | %s | events: %s", msg, scen, evlog.b);
	failed = true;
}

static void setup_queue(int depth, int msg_len)
{
	free(arena);
	D = depth;
	M = msg_len;
	size_t len = (size_t)D * (size_t)M;
	arena = malloc(len + 2 * GUARD);
	memset(arena, 0xA5, len + 2 * GUARD);
	store = arena + GUARD;
	{
		static unsigned inits;
		if (inits++ & 1)
			memset(&q, 0xA5, sizeof(q)); /* a used or junk-filled descriptor */
	}
	messageq_init(&q, store, len, (size_t)M);
	for (int i = 0; i < MAXD; i++)
		slot[i].state = S_FREE;
	nmsgs = 0;
	clk = 1;
	in_use = 0;
	memset(openclaim, 0, sizeof(openclaim));
	max_inv_received = 0;
	received_total = null_claims = overlapped_claims = full_while_inflight = 0;
	failed = false;
	vh_sb_reset(&evlog);
	shim_guard_clear();
	shim_guard_add(arena, GUARD);
	shim_guard_add(store + len, GUARD);
}

/* payload pattern; of a large message only the first and last 48 bytes are written and checked */
static void fill(uint8_t *p, uint32_t id)
{
	for (int i = 0; i < M; i++) {
		if (i == 48 && M > 96)
			i = M - 48;
		p[i] = (uint8_t)(id * 131u + (uint32_t)i * 29u + 7u);
	}
}
static bool intact(const uint8_t *p, uint32_t id)
{
	for (int i = 0; i < M; i++) {
		if (i == 48 && M > 96)
			i = M - 48;
		if (p[i] != (uint8_t)(id * 131u + (uint32_t)i * 29u + 7u))
			return false;
	}
	return true;
}

/* ---- monitored client operations ---- */

/* who: sender index 0..MAXS-1 (or MAXS+level for ISR contexts) */
static uint8_t *mon_claim(int who, uint32_t id)
{
	uint64_t inv = clk++;
	in_use++;
	int others_open = 0;
	for (int i = 0; i < MAXS + 4; i++)
		if (openclaim[i].open && i != who) {
			others_open++;
			if (in_use - 1 > openclaim[i].max_seen)
				openclaim[i].max_seen = in_use - 1;
		}
	if (others_open)
		overlapped_claims++;
	openclaim[who].open = true;
	openclaim[who].max_seen = in_use - 1;
	if (others_open && in_use - 1 >= D)
		full_while_inflight++;
	uint8_t *p = messageq_claim(&q);
	uint64_t ret = clk++;
	openclaim[who].open = false;
	if (failed)
		return p;
	if (!p) {
		in_use--;
		null_claims++;
		vh_sb_add(&evlog, "c%d:NULL ", who);
		if (openclaim[who].max_seen < D)
			viol("claim-failed-with-free-buffer",
			     "claim by sender %d returned NULL although at most %d of %d buffers were in use (claims in progress counted) at any instant of the call",
			     who, openclaim[who].max_seen, D);
		return NULL;
	}
	long off = p - store;
	if (off < 0 || off >= (long)D * M || off % M) {
		viol("claim-returned-bad-pointer", "claim returned offset %ld (depth %d, message size %d)", off, D, M);
		return NULL;
	}
	int s = (int)(off / M);
	vh_sb_add(&evlog, "c%d:slot%d ", who, s);
	if (slot[s].state != S_FREE) {
		static const char *const st[] = { "free", "claimed", "sent", "received" };
		char key[96];
		snprintf(key, sizeof(key), "buffer-handed-out-twice:while-%s", st[slot[s].state]);
		viol(key, "claim by sender %d returned slot %d which is still %s by %s %d (message id %u)", who, s, st[slot[s].state],
		     slot[s].state == S_RECEIVED ? "the receiver; claimed by sender" : "sender", slot[s].owner, slot[s].id);
		return NULL;
	}
	slot[s].state = S_CLAIMED;
	slot[s].owner = who;
	slot[s].id = id;
	if (nmsgs < MAXMSG) {
		msgs[nmsgs].id = id;
		msgs[nmsgs].claim_inv = inv;
		msgs[nmsgs].claim_ret = ret;
		msgs[nmsgs].sent = msgs[nmsgs].received = false;
		nmsgs++;
	}
	fill(p, id);
	return p;
}

static msgrec_t *find_msg(uint32_t id)
{
	for (int i = 0; i < nmsgs; i++)
		if (msgs[i].id == id)
			return &msgs[i];
	return NULL;
}

static void mon_send(int who, uint8_t *p, uint32_t id)
{
	int s = (int)((p - store) / M);
	if (failed)
		return;
	if (!intact(p, id)) {
		viol("claimed-buffer-overwritten-before-send", "sender %d: message %u in slot %d changed between claim and send", who, id, s);
		return;
	}
	slot[s].state = S_SENT;
	msgrec_t *m = find_msg(id);
	if (m)
		m->sent = true;
	clk++;
	vh_sb_add(&evlog, "s%d:slot%d ", who, s);
	messageq_send(&q, p);
	clk++;
}

static uint8_t *mon_receive(void)
{
	clk++;
	uint8_t *p = messageq_receive(&q);
	clk++;
	if (failed || !p) {
		if (!p)
			vh_sb_add(&evlog, "r:NULL ");
		return p;
	}
	long off = p - store;
	if (off < 0 || off >= (long)D * M || off % M) {
		viol("receive-returned-bad-pointer", "receive returned offset %ld", off);
		return NULL;
	}
	int s = (int)(off / M);
	vh_sb_add(&evlog, "r:slot%d ", s);
	if (slot[s].state != S_SENT) {
		static const char *const st[] = { "free", "claimed-but-not-sent", "sent", "already-received" };
		char key[96];
		snprintf(key, sizeof(key), "received-buffer-not-sent:%s", st[slot[s].state]);
		viol(key, "receive returned slot %d whose state is %s", s, st[slot[s].state]);
		return NULL;
	}
	uint32_t id = slot[s].id;
	if (!intact(p, id)) {
		viol("received-contents-differ", "message %u in slot %d does not hold the bytes written before the send", id, s);
		return NULL;
	}
	msgrec_t *m = find_msg(id);
	if (m) {
		if (m->received) {
			viol("message-received-twice", "message %u received twice", id);
			return NULL;
		}
		m->received = true;
		if (m->claim_ret < max_inv_received) {
			viol("received-out-of-claim-order",
			     "message %u (claim returned at t=%" PRIu64 ") received after a message whose claim was only invoked at t=%" PRIu64,
			     id, m->claim_ret, max_inv_received);
			return NULL;
		}
		if (m->claim_inv > max_inv_received)
			max_inv_received = m->claim_inv;
	}
	slot[s].state = S_RECEIVED;
	received_total++;
	return p;
}

static void mon_release(uint8_t *p)
{
	int s = (int)((p - store) / M);
	if (failed)
		return;
	slot[s].state = S_FREE; /* free from the moment release is invoked */
	clk++;
	vh_sb_add(&evlog, "rel:slot%d ", s);
	messageq_release(&q, p);
	clk++;
	in_use--; /* for the spurious-failure oracle the buffer counts as in use until release returned */
}

/* after everything completed */
static void quiescence_check(const char *what)
{
	if (failed)
		return;
	if (shim_guard_hits()) {
		viol("access-outside-queue-storage", "%s", shim_guard_last());
		return;
	}
	for (size_t i = 0; i < GUARD; i++)
		if (arena[i] != 0xA5 || store[(size_t)D * (size_t)M + i] != 0xA5) {
			viol("guard-bytes-modified", "bytes around the queue storage were modified");
			return;
		}
	/* every sent message must have been received if the receiver drained */
	int held = 0;
	for (int s = 0; s < D; s++)
		if (slot[s].state != S_FREE)
			held++;
	int got = 0;
	uint8_t *p;
	shim_enable(false);
	uint8_t *extra[MAXD + 2];
	while (got <= D && (p = messageq_claim(&q)) != NULL)
		extra[got++] = p;
	if (got != D - held) {
		char key[96];
		snprintf(key, sizeof(key), "free-count-at-quiescence:%s", got > D - held ? "too-many" : "too-few");
		viol(key, "%s: %d further claims succeeded, capacity %d minus %d messages still held = %d", what, got, D, held, D - held);
	}
	(void)extra;
}

/* ============================================================ coroutine mode */

static int co_S, co_per;
static int co_recv_target;
static vh_rng_t co_rng;
static int co_lag;

static void sender_thread(void *arg)
{
	int me = (int)(intptr_t)arg;
	for (int k = 0; k < co_per && !failed; k++) {
		uint32_t id = (uint32_t)(me * 1000 + k + 1);
		uint8_t *p;
		int spins = 0;
		while (!(p = mon_claim(me, id))) {
			if (failed)
				return;
			shim_co_backoff();
			if (++spins > 20000) {
				viol("sender-starved", "sender %d could not claim a buffer after %d attempts with a live receiver", me, spins);
				return;
			}
		}
		shim_harness_point();
		mon_send(me, p, id);
	}
}

static void receiver_thread(void *arg)
{
	(void)arg;
	uint8_t *held[MAXD];
	int nheld = 0, spins = 0;
	while (received_total < co_recv_target && !failed) {
		uint8_t *p = mon_receive();
		if (!p) {
			/* nothing to receive: give buffers back, let the senders run */
			while (nheld && !failed) {
				mon_release(held[0]);
				memmove(held, held + 1, sizeof(held[0]) * (size_t)(--nheld));
			}
			shim_co_backoff();
			if (++spins > 40000) {
				viol("receiver-starved", "receiver saw nothing for %d attempts; %d of %d received", spins, received_total,
				     co_recv_target);
				return;
			}
			continue;
		}
		spins = 0;
		held[nheld++] = p;
		shim_harness_point();
		/* lag: keep up to co_lag messages before releasing the oldest */
		while (nheld > co_lag && !failed) {
			mon_release(held[0]);
			memmove(held, held + 1, sizeof(held[0]) * (size_t)(--nheld));
		}
	}
	while (nheld && !failed) {
		mon_release(held[0]);
		memmove(held, held + 1, sizeof(held[0]) * (size_t)(--nheld));
	}
}

static void co_case(long long c)
{
	vh_rng_seed(&co_rng, vh_opt.seed, 4, (uint64_t)c);
	char key[64];
	snprintf(key, sizeof(key), "co:case=%lld", c);
	vh_case_key(key);
	vh_case_replay("--extra co --only-case %lld", c);
	static const int depths[] = { 1, 1, 2, 2, 3, 3, 4, 4, 8, 32 };
	int depth = depths[vh_below(&co_rng, 10)];
	co_S = 1 + (int)vh_below(&co_rng, 5);
	co_per = 1 + (int)vh_below(&co_rng, depth >= 8 ? 40 : 12);
	if (co_S * co_per > MAXMSG - 8)
		co_per = (MAXMSG - 8) / co_S;
	if (vh_below(&co_rng, 16) == 0) {
		/* a long run on a depth that is not a power of two: any 8-bit index or ticket wraps with messages in flight */
		static const int odd[] = { 3, 5, 6, 7 };
		depth = odd[vh_below(&co_rng, 4)];
		co_S = 1 + (int)vh_below(&co_rng, 3);
		co_per = (300 + (int)vh_below(&co_rng, 200)) / co_S;
		VH_COUNT("long_runs_on_odd_depth");
	}
	co_lag = (int)vh_below(&co_rng, (uint32_t)depth + 1); /* 0..depth messages held back (depth: the receiver polls again while holding everything) */
	int msg_len = 1 + (int)vh_below(&co_rng, 12);
	if (vh_below(&co_rng, 12) == 0 && depth >= 2) {
		/* a large geometry: the last buffer starts 64 KiB or more from the base (message sizes are 16 bit, offsets are not) */
		int least = 65536 / (depth - 1) + 1;
		msg_len = least >= 65535 ? 65535 : least + (int)vh_below(&co_rng, (uint32_t)(65535 - least));
		VH_COUNT("runs_with_buffers_beyond_64KiB");
	}
	int policy = vh_below(&co_rng, 3) == 0 ? SHIM_POLICY_PCT : SHIM_POLICY_RANDOM;
	static const uint32_t probs[] = { 1311, 6554, 32768 }; /* 0.02, 0.1, 0.5 */
	uint32_t param = policy == SHIM_POLICY_PCT ? 1 + vh_below(&co_rng, 3) : probs[vh_below(&co_rng, 3)];
	snprintf(scen, sizeof(scen), "coroutines: depth %d, message size %d, %d senders x %d messages, receiver lag %d, %s(%u)", depth,
		 msg_len, co_S, co_per, co_lag, policy == SHIM_POLICY_PCT ? "PCT d=" : "random p/65536=", param);
	vh_case_desc("%s", scen);
	shim_reset();
	setup_queue(depth, msg_len);
	co_recv_target = co_S * co_per;
	shim_co_begin(policy, param, vh_next(&co_rng));
	for (int s = 0; s < co_S; s++)
		shim_co_spawn(sender_thread, (void *)(intptr_t)s);
	shim_co_spawn(receiver_thread, NULL);
	shim_enable(true);
	bool finished = shim_co_run(3000000);
	shim_enable(false);
	vh_evaluations++;
	VH_COUNT("schedules_run");
	VH_COUNT_N("schedule_points", shim_total_points());
	VH_COUNT_N("context_switches", shim_co_switches());
	if (!finished && !failed) {
		viol("livelock", "schedule exceeded 3000000 schedule points without completing (%d of %d received)", received_total,
		     co_recv_target);
	}
	if (!failed) {
		if (received_total != co_recv_target)
			viol("message-lost", "%d messages were sent, %d received", co_recv_target, received_total);
		for (int i = 0; i < nmsgs && !failed; i++)
			if (msgs[i].sent && !msgs[i].received)
				viol("message-lost", "message %u was sent but never received", msgs[i].id);
	}
	quiescence_check("after all senders and the receiver finished");
	VH_COUNT_N("messages_delivered", received_total);
	VH_COUNT_N("null_claims", null_claims);
	VH_COUNT_N("overlapping_claims", overlapped_claims);
	if (full_while_inflight)
		VH_COUNT("schedules_with_claim_in_flight_while_full");
	vh_distinct2(shim_co_schedule_hash());
	if (full_while_inflight || overlapped_claims) {
		vh_distinct(vh_mix(shim_co_schedule_hash(), (uint64_t)depth * 64 + (uint64_t)co_S));
		VH_COUNT("schedules_nontrivial");
	}
	if (vh_want_sample() && evlog.n < 400 && overlapped_claims && c % 9 == 4)
		vh_sample("%s | %s", scen, evlog.b);
}

/* ============================================================ interrupt mode */

static int isr_next_id;
static int isr_done;
static int isr_action[4]; /* per nesting level: 0 = claim+send, 1 = claim only (send later at main level is not possible) */

static int isr_role; /* 0: the interrupt is a sender; 1: the interrupt is THE receiver (main context only sends) */
static void isr_sender(int level, int id, void *ctx)
{
	(void)ctx;
	(void)id;
	if (isr_role == 1 && level == 1) {
		/* THE receiver: receive and release up to two messages.  (An interrupt nested inside it acts as a
		 * sender: there is only ever one receiver.) */
		for (int i = 0; i < 2 && !failed; i++) {
			uint8_t *p = mon_receive();
			isr_done++;
			if (!p)
				break;
			mon_release(p);
		}
		return;
	}
	uint32_t mid = (uint32_t)(9000 + level * 100 + isr_next_id++);
	uint8_t *p = mon_claim(MAXS + level, mid);
	isr_done++;
	if (!p)
		return;
	mon_send(MAXS + level, p, mid);
}

/* main-context scripts: a string of c (claim+remember), s (send oldest claimed by main), r (receive), l (release oldest received) */
typedef struct {
	const char *name;
	int depth;
	const char *prefill; /* executed with injection disabled */
	const char *script;  /* executed with injection enabled */
	int isr_role;        /* 0 sender, 1 receiver */
} scenario_t;

static const scenario_t scenarios[] = {
	{ "claim+send on empty queue", 3, "", "cs" },
	{ "claim on full queue (all claimed and sent)", 3, "cscscs", "c" },
	{ "claim on full queue depth 1", 1, "cs", "c" },
	{ "claim on full queue depth 2, then receive/release/claim", 2, "cscs", "crlcs" },
	{ "two claims then sends, one free", 3, "cs", "ccss" },
	{ "receive+release with one message", 3, "cs", "rl" },
	{ "receive on empty queue", 2, "", "r" },
	{ "receive twice then release twice (part-full)", 4, "cscscs", "rrll" },
	{ "release then claim on formerly full queue", 2, "cscsr", "lcs" },
	{ "claim/send wrapping the index", 2, "csrlcsrl", "cscsrl" },
	{ "full queue of claimed-but-unsent, then send", 2, "cc", "cs" },
	{ "depth 32, claim+send+receive+release", 32, "cscscscs", "csrl" },
	{ "drain: receive all of a full queue", 3, "cscscs", "rlrlrlr" },
	{ "receive everything, poll again, only then release", 2, "cscs", "rrrllr" },
	{ "receive everything of depth 1, poll again, release", 1, "cs", "rrlr" },
	/* the receiver preempts a sender (higher-priority consumer): main context only claims and sends */
	{ "receiver ISR inside claim on a full queue", 3, "cscscs", "c", 1 },
	{ "receiver ISR inside claim+send, queue part full", 3, "cs", "cscs", 1 },
	{ "receiver ISR inside claim on full queue of depth 1", 1, "cs", "ccs", 1 },
	{ "receiver ISR inside two claims then sends", 2, "cs", "ccss", 1 },
	{ "receiver ISR, empty queue, claim+send", 2, "", "cs", 1 },
};
#define NSCEN (sizeof(scenarios) / sizeof(scenarios[0]))

static uint8_t *main_claimed[MAXD + 4];
static uint32_t main_claimed_id[MAXD + 4];
static int nmain_claimed;
static uint8_t *main_recv[MAXD + 4];
static int nmain_recv;
static uint32_t main_next_id;

static void run_script(const char *s)
{
	for (; *s && !failed; s++) {
		switch (*s) {
		case 'c': {
			uint32_t id = main_next_id++;
			uint8_t *p = mon_claim(0, id);
			if (p) {
				main_claimed[nmain_claimed] = p;
				main_claimed_id[nmain_claimed++] = id;
			}
			break;
		}
		case 's':
			if (nmain_claimed) {
				mon_send(0, main_claimed[0], main_claimed_id[0]);
				memmove(main_claimed, main_claimed + 1, sizeof(main_claimed[0]) * (size_t)(nmain_claimed - 1));
				memmove(main_claimed_id, main_claimed_id + 1, sizeof(main_claimed_id[0]) * (size_t)(nmain_claimed - 1));
				nmain_claimed--;
			}
			break;
		case 'r': {
			uint8_t *p = mon_receive();
			if (p)
				main_recv[nmain_recv++] = p;
			break;
		}
		case 'l':
			if (nmain_recv) {
				mon_release(main_recv[0]);
				memmove(main_recv, main_recv + 1, sizeof(main_recv[0]) * (size_t)(nmain_recv - 1));
				nmain_recv--;
			}
			break;
		}
	}
}

/* runs one scenario with the plan currently loaded in the shim; returns points at level 0 */
static jmp_buf abort_env;
static uint64_t run_scenario(const scenario_t *sc, int msg_len, uint64_t *isr1_points)
{
	setup_queue(sc->depth, msg_len);
	nmain_claimed = nmain_recv = 0;
	main_next_id = 1;
	isr_next_id = 0;
	isr_done = 0;
	shim_enable(false);
	run_script(sc->prefill);
	isr_role = sc->isr_role;
	shim_set_isr(isr_sender, NULL);
	shim_set_point_limit(1000000);
	shim_set_abort_jmp(&abort_env);
	uint64_t pts = 0;
	if (setjmp(abort_env) == 0) {
		shim_enable(true);
		run_script(sc->script);
		shim_enable(false);
		pts = shim_points(0);
		if (isr1_points)
			*isr1_points = shim_points(1);
	} else {
		viol("livelock", "a library call did not finish within 1000000 schedule points");
	}
	shim_set_abort_jmp(NULL);
	/* drain: the receiver takes everything that was sent, senders send what they hold */
	shim_enable(false);
	if (!failed) {
		while (nmain_claimed)
			run_script("s");
		while (nmain_recv && !failed)
			run_script("l");
		for (int i = 0; i < 2 * MAXD + 4 && !failed; i++) {
			uint8_t *p = mon_receive();
			if (!p)
				break;
			mon_release(p);
		}
		for (int i = 0; i < nmsgs && !failed; i++)
			if (msgs[i].sent && !msgs[i].received)
				viol("message-lost", "message %u was sent but never received", msgs[i].id);
	}
	quiescence_check("after the scenario was drained");
	return pts;
}

static void isr_sweeps(void)
{
	uint64_t caseno = 0;
	for (unsigned si = 0; si < NSCEN; si++) {
		const scenario_t *sc = &scenarios[si];
		int msg_len = 4;
		/* dry run */
		shim_reset();
		snprintf(scen, sizeof(scen), "interrupt sweep, scenario '%s' (depth %d, prefill %s, script %s), no ISR", sc->name, sc->depth,
			 sc->prefill, sc->script);
		char key[96];
		snprintf(key, sizeof(key), "isr:scenario=%u,dry", si);
		vh_case_key(key);
		vh_case_desc("%s", scen);
		vh_case_replay("--extra isr");
		uint64_t P = run_scenario(sc, msg_len, NULL);
		vh_evaluations++;
		VH_COUNT("scenarios");
		VH_COUNT_N("main_context_schedule_points", P);
		for (uint64_t p = 0; p < P && vh_nviol < 8; p++, caseno++) {
			/* single ISR at point p */
			bool mine = (caseno % (uint64_t)vh_opt.nproc) == (uint64_t)vh_opt.proc;
			uint64_t Q = 0;
			if (mine || vh_opt.thorough || 1) {
				shim_reset();
				shim_plan_add(0, 0, p, 0);
				snprintf(scen, sizeof(scen), "interrupt sweep, scenario '%s' (depth %d, prefill %s, script %s), ISR before main point %" PRIu64 " of %" PRIu64,
					 sc->name, sc->depth, sc->prefill, sc->script, p, P);
				snprintf(key, sizeof(key), "isr:scenario=%u,p=%" PRIu64, si, p);
				vh_case_key(key);
				vh_case_desc("%s", scen);
				if (mine) {
					run_scenario(sc, msg_len, &Q);
					vh_evaluations++;
					VH_COUNT("single_isr_placements");
					if (full_while_inflight || overlapped_claims) {
						vh_distinct(vh_mix(vh_mix(0x15, si), p));
						VH_COUNT("placements_nontrivial");
					}
					if (vh_want_sample() && overlapped_claims && p % 5 == 2)
						vh_sample("%s | %s", scen, evlog.b);
				} else {
					/* need Q for the split of nested work: recompute cheaply */
					run_scenario(sc, msg_len, &Q);
					failed = false;
				}
			}
			/* nested pair: second ISR before point q of the first */
			for (uint64_t qn = 0; qn < Q && vh_nviol < 8; qn++) {
				if (((caseno * 131 + qn) % (uint64_t)vh_opt.nproc) != (uint64_t)vh_opt.proc)
					continue;
				shim_reset();
				shim_plan_add(0, 0, p, 0);
				shim_plan_add(1, 1, qn, 1);
				snprintf(scen, sizeof(scen), "nested sweep, scenario '%s' (depth %d, prefill %s, script %s), ISR1 before main point %" PRIu64 ", ISR2 before point %" PRIu64 " of ISR1",
					 sc->name, sc->depth, sc->prefill, sc->script, p, qn);
				snprintf(key, sizeof(key), "isr:scenario=%u,p=%" PRIu64 ",q=%" PRIu64, si, p, qn);
				vh_case_key(key);
				vh_case_desc("%s", scen);
				run_scenario(sc, msg_len, NULL);
				vh_evaluations++;
				VH_COUNT("nested_pair_placements");
				if (full_while_inflight || overlapped_claims) {
					vh_distinct(vh_mix(vh_mix(vh_mix(0x16, si), p), qn));
					VH_COUNT("placements_nontrivial");
				}
			}
		}
	}
	vh_exhaustive = vh_nviol == 0;
	snprintf(vh_note, sizeof(vh_note), "every placement of one ISR, and of a nested pair, in %u fixed scenarios", (unsigned)NSCEN);
}

int main(int argc, char **argv)
{
	vh_init(argc, argv, "mq_conc");
	const char *mode = vh_opt.extra ? vh_opt.extra : "co";
	if (!strcmp(mode, "isr")) {
		isr_sweeps();
	} else {
		long long n = vh_opt.cases ? vh_opt.cases : (vh_opt.thorough ? 8000000 : 100000);
		for (long long c = vh_opt.proc; c < n; c += vh_opt.nproc) {
			if (vh_opt.only_case >= 0 && c != vh_opt.only_case)
				continue;
			co_case(c);
			if (vh_nviol >= 8)
				break;
		}
	}
	const shim_census_t *cs = shim_census();
	VH_COUNT_N("census_atomic_seq_cst", cs->atomic_by_order[5]);
	VH_COUNT_N("census_atomic_weaker_than_seq_cst",
		   cs->atomic_by_order[0] + cs->atomic_by_order[1] + cs->atomic_by_order[2] + cs->atomic_by_order[3] + cs->atomic_by_order[4]);
	VH_COUNT_N("census_plain_accesses", cs->plain_reads + cs->plain_writes);
	return vh_finish();
}

/*
 * C10 - the message queue is a bounded FIFO of fixed buffers for every
 * geometry (sequential histories).
 *
 * Model: cyclic claim counter, per-slot state FREE/CLAIMED/SENT/RECEIVED,
 * receive cursor.  After every operation: returned pointer or NULL,
 * messageq_empty, payload integrity (each claimed message is filled with a
 * pattern derived from its serial number and verified when received), slack
 * bytes.  Storage is an exactly-sized heap block (ASan red zones on both
 * sides).  A second queue made with MESSAGEQ_VAR_INIT runs the same history.
 *
 * mode "exh":  every history of length L over {claim, send oldest claimed, send
 *              newest claimed, receive, release} for every depth 1..32 and a
 *              set of sizes/slacks.
 * mode "rand": random histories of 3*depth..20*depth operations, all
 *              geometries, sends permuted among claimed messages.
 */
#include "vh.h"

#include <librfn/messageq.h>

enum { FREE, CLAIMED, SENT, RECEIVED };

typedef struct {
	messageq_t q;
	uint8_t *store;
} impl_t;

static impl_t A, B; /* A: messageq_init, B: MESSAGEQ_VAR_INIT */
static uint8_t *B_block;
static int D, M, SLACK;
static size_t base_len;

/* model */
static int state[32];
static uint32_t serial_of[32];
static int claim_next, recv_next, rel_next;
static int nonfree;
static uint32_t serial;
static uint32_t expect_recv_serial;

static vh_sb_t trace;
static bool failed;
static uint32_t flags;
#define F_WRAPPED 1
#define F_OUT_OF_ORDER_SEND 2
#define F_FULL_NULL 4
#define F_RECV_BLOCKED_BY_UNSENT 8

static void fail(const char *clause, const char *fmt, ...)
{
	char msg[500];
	va_list ap;
	va_start(ap, fmt);
	vsnprintf(msg, sizeof(msg), fmt, ap);
	va_end(ap);
	vh_violation(clause, vh_cur_replay, "%s | depth %d, message size %d, slack %d; history: %s", msg, D, M, SLACK, trace.b);
	failed = true;
}

static void setup(int depth, int msg, int slack)
{
	free(A.store);
	free(B_block);
	D = depth;
	M = msg;
	SLACK = slack;
	base_len = (size_t)D * (size_t)M + (size_t)slack;
	A.store = malloc(base_len);
	B_block = malloc(base_len + 8); /* the twin's storage starts 8 bytes into its block */
	B.store = B_block + 8;
	if (base_len <= 65536) {
		memset(A.store, 0xA7, base_len);
		memset(B.store, 0xA7, base_len);
	} else if (slack) {
		memset(A.store + base_len - (size_t)slack, 0xA7, (size_t)slack);
		memset(B.store + base_len - (size_t)slack, 0xA7, (size_t)slack);
	}
	memset(&A.q, 0x55, sizeof(A.q));
	{
		/* messageq_init describes a fresh queue whatever the descriptor held before (a previous life, or junk) */
		static unsigned inits;
		if (inits++ & 1)
			memset(&A.q, 0xA5, sizeof(A.q));
	}
	messageq_init(&A.q, A.store, base_len, (size_t)M);
	/* the static initialiser is handed expressions (non-byte pointer arithmetic, sums): macro hygiene */
	uint32_t *words = (uint32_t *)B_block;
	size_t len_a = base_len / 3, len_b = base_len - len_a;
	int m_a = M / 2, m_b = M - m_a;
	messageq_t tmp = MESSAGEQ_VAR_INIT(words + 2, len_a + len_b, m_a + m_b);
	memcpy(&B.q, &tmp, sizeof(tmp));
	for (int i = 0; i < 32; i++)
		state[i] = FREE;
	claim_next = recv_next = rel_next = nonfree = 0;
	serial = expect_recv_serial = 0;
	failed = false;
	flags = 0;
	vh_sb_reset(&trace);
	/* the two initialisers describe the same queue (B's base differs by design) */
	if (A.q.msg_len != B.q.msg_len || A.q.queue_len != B.q.queue_len ||
	    atomic_load(&A.q.num_free) != atomic_load(&B.q.num_free) || atomic_load(&A.q.sendp) != atomic_load(&B.q.sendp) ||
	    atomic_load(&A.q.full_flags) != atomic_load(&B.q.full_flags) || A.q.receivep != B.q.receivep ||
	    A.q.basep != (char *)A.store || B.q.basep != (char *)B.store)
		fail("initialisers-differ", "messageq_init: msg_len=%u queue_len=%u num_free=%u; MESSAGEQ_VAR_INIT: msg_len=%u queue_len=%u num_free=%u",
		     A.q.msg_len, A.q.queue_len, (unsigned)atomic_load(&A.q.num_free), B.q.msg_len, B.q.queue_len,
		     (unsigned)atomic_load(&B.q.num_free));
}

/* large messages carry the pattern in their first and last 32 bytes only */
static void fill(uint8_t *p, uint32_t ser)
{
	for (int i = 0; i < M; i++) {
		if (M > 96 && i == 32)
			i = M - 32;
		p[i] = (uint8_t)(ser * 31u + (uint32_t)i * 7u + 1u);
	}
}
static bool intact(const uint8_t *p, uint32_t ser)
{
	for (int i = 0; i < M; i++) {
		if (M > 96 && i == 32)
			i = M - 32;
		if (p[i] != (uint8_t)(ser * 31u + (uint32_t)i * 7u + 1u))
			return false;
	}
	return true;
}

static void check_common(const char *op)
{
	if (failed)
		return;
	bool want_empty = state[recv_next] != SENT;
	bool ea = messageq_empty(&A.q), eb = messageq_empty(&B.q);
	if (ea != want_empty || eb != want_empty) {
		char clause[96];
		snprintf(clause, sizeof(clause), "messageq_empty-wrong-after:%s", op);
		fail(clause, "messageq_empty=%d (static-init twin %d) but the model says receive would %s", ea, eb,
		     want_empty ? "return nothing" : "return a message");
		return;
	}
	for (int s = 0; s < SLACK; s++)
		if (A.store[(size_t)D * (size_t)M + (size_t)s] != 0xA7 || B.store[(size_t)D * (size_t)M + (size_t)s] != 0xA7) {
			fail("slack-bytes-touched", "trailing byte %d of the storage was modified", s);
			return;
		}
	VH_COUNT("operations_compared");
}

/* ops: 0 claim, 1 send oldest claimed, 2 send newest claimed, 3 receive, 4 release, 5 send k-th claimed (rand) */
static bool apply(int op, uint32_t k)
{
	if (failed)
		return false;
	switch (op) {
	case 0: {
		vh_sb_add(&trace, "claim ");
		uint8_t *pa = messageq_claim(&A.q), *pb = messageq_claim(&B.q);
		if (nonfree == D) {
			flags |= F_FULL_NULL;
			if (pa || pb) {
				fail("claim-should-fail", "all %d buffers are claimed and unreleased but claim returned offset %td", D,
				     pa ? pa - A.store : pb - B.store);
				return true;
			}
		} else {
			uint8_t *wa = A.store + (size_t)claim_next * (size_t)M, *wb = B.store + (size_t)claim_next * (size_t)M;
			if (pa != wa || pb != wb) {
				char clause[96];
				snprintf(clause, sizeof(clause), "claim-wrong-buffer:%s", !pa ? "NULL-with-free-buffers" : "wrong-offset");
				fail(clause, "claim returned %s%td (twin %s%td), expected offset %d (slot %d); %d of %d buffers in use",
				     pa ? "offset " : "NULL ", pa ? pa - A.store : 0, pb ? "offset " : "NULL ", pb ? pb - B.store : 0,
				     claim_next * M, claim_next, nonfree, D);
				return true;
			}
			if (state[claim_next] != FREE) {
				/* cannot happen while releases are in order; model sanity */
				fail("harness-internal", "model slot %d not free", claim_next);
				return true;
			}
			state[claim_next] = CLAIMED;
			serial_of[claim_next] = serial;
			fill(pa, serial);
			fill(pb, serial);
			serial++;
			nonfree++;
			claim_next = claim_next + 1 >= D ? 0 : claim_next + 1;
			if (claim_next == 0)
				flags |= F_WRAPPED;
		}
		check_common("claim");
		return true;
	}
	case 1:
	case 2:
	case 5: {
		/* collect claimed slots in claim order starting from recv side */
		int idx[32], n = 0;
		for (int i = 0, s = rel_next; i < D; i++, s = s + 1 >= D ? 0 : s + 1)
			if (state[s] == CLAIMED)
				idx[n++] = s;
		if (!n)
			return false;
		/* order by serial (claim order) */
		for (int i = 0; i < n; i++)
			for (int j = i + 1; j < n; j++)
				if ((int32_t)(serial_of[idx[j]] - serial_of[idx[i]]) < 0) {
					int t = idx[i];
					idx[i] = idx[j];
					idx[j] = t;
				}
		int pick = op == 1 ? 0 : op == 2 ? n - 1 : (int)(k % (uint32_t)n);
		if (op == 2 && n == 1)
			return false; /* same as op 1 */
		if (pick != 0)
			flags |= F_OUT_OF_ORDER_SEND;
		int s = idx[pick];
		vh_sb_add(&trace, "send(slot%d) ", s);
		messageq_send(&A.q, A.store + (size_t)s * (size_t)M);
		messageq_send(&B.q, B.store + (size_t)s * (size_t)M);
		state[s] = SENT;
		check_common("send");
		return true;
	}
	case 3: {
		vh_sb_add(&trace, "receive ");
		uint8_t *pa = messageq_receive(&A.q), *pb = messageq_receive(&B.q);
		if (state[recv_next] == SENT) {
			uint8_t *wa = A.store + (size_t)recv_next * (size_t)M, *wb = B.store + (size_t)recv_next * (size_t)M;
			if (pa != wa || pb != wb) {
				char clause[96];
				snprintf(clause, sizeof(clause), "receive-wrong-buffer:%s", !pa ? "NULL-with-message-pending" : "wrong-offset");
				fail(clause, "receive returned %s%td, expected offset %d (slot %d, oldest claimed, sent)", pa ? "offset " : "NULL ",
				     pa ? pa - A.store : 0, recv_next * M, recv_next);
				return true;
			}
			if (!intact(pa, serial_of[recv_next]) || !intact(pb, serial_of[recv_next]) ||
			    serial_of[recv_next] != expect_recv_serial) {
				fail("received-payload-wrong", "message in slot %d does not carry the pattern of claim #%u", recv_next,
				     expect_recv_serial);
				return true;
			}
			expect_recv_serial++;
			state[recv_next] = RECEIVED;
			recv_next = recv_next + 1 >= D ? 0 : recv_next + 1;
		} else {
			if (state[recv_next] == CLAIMED)
				flags |= F_RECV_BLOCKED_BY_UNSENT;
			if (pa || pb) {
				fail("receive-should-return-NULL", "receive returned offset %td although the oldest claimed message (slot %d) is %s",
				     pa ? pa - A.store : pb - B.store, recv_next, state[recv_next] == CLAIMED ? "not yet sent" : "absent");
				return true;
			}
		}
		check_common("receive");
		return true;
	}
	case 4:
		if (state[rel_next] != RECEIVED)
			return false;
		vh_sb_add(&trace, "release(slot%d) ", rel_next);
		messageq_release(&A.q, A.store + (size_t)rel_next * (size_t)M);
		messageq_release(&B.q, B.store + (size_t)rel_next * (size_t)M);
		state[rel_next] = FREE;
		nonfree--;
		rel_next = rel_next + 1 >= D ? 0 : rel_next + 1;
		check_common("release");
		return true;
	}
	return false;
}

static const int sizes_all[] = { 1, 2, 3, 4, 5, 7, 8, 12, 16, 24, 33, 100, 255, 256, 1000, 2115, 4096, 16384, 65535 };
static const int sizes_exh[] = { 1, 3, 4, 8, 33 };

static void exhaustive(void)
{
	int L = vh_opt.thorough ? 9 : 7;
	if (vh_opt.cases)
		L = (int)vh_opt.cases;
	uint64_t total = 1;
	for (int i = 0; i < L; i++)
		total *= 5;
	uint64_t geo = 0, run = 0, pruned = 0;
	for (int depth = 1; depth <= 32; depth++)
		for (unsigned si = 0; si < sizeof(sizes_exh) / sizeof(int); si++)
			for (int sl = 0; sl < 3; sl++, geo++) {
				if ((geo % (uint64_t)vh_opt.nproc) != (uint64_t)vh_opt.proc)
					continue;
				int msg = sizes_exh[si];
				int slack = sl == 0 ? 0 : sl == 1 ? 1 : msg - 1;
				if (sl && slack >= msg)
					continue;
				if (sl == 2 && slack <= 1)
					continue;
				for (uint64_t idx = 0; idx < total; idx++) {
					uint64_t caseno = geo * total + idx;
					if (vh_opt.only_case >= 0 && caseno != (uint64_t)vh_opt.only_case)
						continue;
					setup(depth, msg, slack);
					char key[80];
					snprintf(key, sizeof(key), "exh:geo=%" PRIu64 ",idx=%" PRIu64, geo, idx);
					vh_case_key(key);
					vh_case_replay("--extra exh --cases %d --only-case %" PRIu64, L, caseno);
					uint64_t x = idx;
					bool ok = true;
					for (int i = 0; i < L && ok && !failed; i++) {
						ok = apply((int)(x % 5), 0);
						x /= 5;
					}
					if (!ok && !failed) {
						pruned++;
						continue;
					}
					run++;
					vh_evaluations++;
					if ((flags & F_OUT_OF_ORDER_SEND) && (flags & (F_WRAPPED | F_FULL_NULL))) {
						VH_COUNT_N("__distinct_exact", 1);
						if (vh_want_sample() && idx % 1009 == 3)
							vh_sample("depth %d size %d slack %d: %s", depth, msg, slack, trace.b);
					}
					if (vh_nviol >= 6)
						goto out;
				}
				VH_COUNT("geometries_exhausted");
			}
out:
	VH_COUNT_N("exhaustive_histories_executed", run);
	VH_COUNT_N("exhaustive_histories_pruned(inapplicable op)", pruned);
	vh_exhaustive = vh_nviol == 0;
	snprintf(vh_note, sizeof(vh_note), "all histories of length %d over 5 operations for depth 1..32 x sizes {1,3,4,8,33} x slack {0,1,size-1}", L);
}

static void random_case(long long c)
{
	vh_rng_t r;
	vh_rng_seed(&r, vh_opt.seed, 10, (uint64_t)c);
	int depth = 1 + (int)(c % 32);
	int msg = sizes_all[vh_below(&r, sizeof(sizes_all) / sizeof(int))];
	int sl = (int)vh_below(&r, 3);
	int slack = sl == 0 ? 0 : sl == 1 ? (msg > 1 ? 1 : 0) : msg - 1;
	setup(depth, msg, slack);
	char key[64];
	snprintf(key, sizeof(key), "rand:case=%lld", c);
	vh_case_key(key);
	vh_case_replay("--extra rand --only-case %lld", c);
	int nops = 3 * depth + (int)vh_below(&r, (uint32_t)(17 * depth + 1));
	if (vh_below(&r, 6) == 0)
		nops = 1200 + (int)vh_below(&r, 800); /* long enough for any 8-bit index or counter to wrap */
	int bias = (int)vh_below(&r, 3); /* 0: keep it nearly full, 1: nearly empty, 2: balanced */
	for (int i = 0; i < nops && !failed; i++) {
		uint32_t x = vh_below(&r, 100);
		int op;
		if (bias == 0)
			op = x < 45 ? 0 : x < 70 ? 5 : x < 85 ? 3 : 4;
		else if (bias == 1)
			op = x < 25 ? 0 : x < 50 ? 5 : x < 75 ? 3 : 4;
		else
			op = x < 30 ? 0 : x < 55 ? 5 : x < 80 ? 3 : 4;
		apply(op, (uint32_t)vh_next(&r));
	}
	vh_evaluations++;
	VH_COUNT("random_histories");
	if (flags & F_WRAPPED)
		VH_COUNT("histories_wrapping_the_slot_index");
	if (serial > 300)
		VH_COUNT("histories_with_more_than_300_claims");
	if (flags & F_FULL_NULL)
		VH_COUNT("histories_with_claim_on_full_queue");
	if (flags & F_RECV_BLOCKED_BY_UNSENT)
		VH_COUNT("histories_with_receive_blocked_by_unsent_oldest");
	if ((flags & F_WRAPPED) && (flags & F_OUT_OF_ORDER_SEND)) {
		uint64_t h = 10;
		for (int i = 0; i < trace.n; i++)
			h = vh_mix(h, (unsigned char)trace.b[i]);
		vh_distinct(vh_mix(h, (uint64_t)depth * 100000 + (uint64_t)msg * 10 + (uint64_t)sl));
		VH_COUNT("histories_nontrivial");
		if (vh_want_sample() && depth <= 3 && nops < 24)
			vh_sample("depth %d size %d slack %d: %s", depth, msg, slack, trace.b);
	}
}

int main(int argc, char **argv)
{
	vh_init(argc, argv, "mq_seq");
	const char *mode = vh_opt.extra ? vh_opt.extra : "rand";
	if (!strcmp(mode, "exh")) {
		exhaustive();
	} else {
		long long n = vh_opt.cases ? vh_opt.cases : (vh_opt.thorough ? 4000000 : 100000);
		for (long long c = vh_opt.proc; c < n; c += vh_opt.nproc) {
			if (vh_opt.only_case >= 0 && c != vh_opt.only_case)
				continue;
			random_case(c);
			if (vh_nviol >= 6)
				break;
		}
	}
	return vh_finish();
}

/* shared by the generated protothread programs and their driver (C08) */
#ifndef PT_DRIVER_H_
#define PT_DRIVER_H_

#include <assert.h>
#include <stdint.h>
#include <stdlib.h>
#include <librfn/protothreads.h>

typedef struct ctx {
	int v[4];
	int c[8];
	int polls[8];
	pt_t cpt[4];
	struct ctx *cctx_[4];
} ctx_t;

void emit(int id);
extern int pt_last_res; /* receives the result of a PT_CALL whose thread argument is an assignment */
ctx_t *child_ctx(ctx_t *x, int i);
static inline int poll(ctx_t *x, int k, int t)
{
	x->polls[k]++;
	emit(1000 + k);
	/* "true" is deliberately not always 1: conditions in real code are masks, counts and pointers */
	return x->polls[k] % (t + 1) == 0 ? 2 + 5 * k : 0;
}
#define cctx_of(x, i) child_ctx((x), (i))

typedef pt_state_t prog_fn_t(pt_t *pt, ctx_t *x);
typedef struct {
	int id;
	prog_fn_t *fn;
	int flags;
	int init[4];
	const char *expected;
	const char *source;
} prog_t;

#endif

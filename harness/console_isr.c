/*
 * C06 / C15 - console_putchar from interrupt context (engine E2).
 *
 * console.c, ringbuf.c, fibre.c, messageq.c and list.c are compiled with
 * -fsanitize=thread and linked with rt/shim.c.  The main context runs the
 * scheduler; the interrupt handler calls console_putchar() with the next
 * character of a known stream, placed before instrumented memory accesses of
 * the scheduler, of the console fibre and of the ring buffer.
 *
 * Oracle: every complete line fed is dispatched exactly once, in order, with
 * the expected arguments, once the scheduler has gone idle - a lost wake-up
 * leaves a line sitting in the ring, a duplicated one runs a command twice.
 * Characters are fed in bursts of at most 15 so the documented drop-on-overflow
 * of the 16-byte ring never applies.
 *
 * --extra sweep   the final newline of a line injected before every schedule
 *                 point of a three-pass window (all other characters fed first)
 * --extra random  whole streams fed by randomly placed interrupts
 */
#include "vh.h"
#include "shim.h"

#include <setjmp.h>
#include <librfn/console.h>
#include <librfn/fibre.h>

void fibre_verif_reset(void);
void console_verif_reset(void);
void shim_set_abort_jmp(jmp_buf *j);
void console_hwinit(console_t *c) { (void)c; }

static console_t *con;
static FILE *out;
static char *outbuf;
static size_t outlen;
static console_cmd_t cmds[3];
static const char *const names[3] = { "a", "aa", "cap" };

#define MAXD 64
static struct {
	int cmd, argc;
	char a1[20], a2[20];
} got[MAXD], want[MAXD];
static int ngot, nwant;
static bool failed;
static char scen[VH_TEXT];
static vh_sb_t evlog;

static void viol(const char *key, const char *fmt, ...)
{
	char msg[600];
	va_list ap;
	va_start(ap, fmt);
	vsnprintf(msg, sizeof(msg), fmt, ap);
	va_end(ap);
	vh_violation(key, vh_cur_replay, "%s | %s | events: %s", msg, scen, evlog.b);
	failed = true;
}

static pt_state_t capture(console_t *c)
{
	if (ngot < MAXD) {
		got[ngot].cmd = (int)(c->cmd - cmds);
		got[ngot].argc = c->argc;
		snprintf(got[ngot].a1, sizeof(got[ngot].a1), "%s", c->argv[1]);
		snprintf(got[ngot].a2, sizeof(got[ngot].a2), "%s", c->argv[2]);
		vh_sb_add(&evlog, "{%s %s %s} ", names[got[ngot].cmd], got[ngot].a1, got[ngot].a2);
		ngot++;
	}
	return PT_EXITED;
}

static void new_console(void)
{
	if (out)
		fclose(out);
	free(outbuf);
	outbuf = NULL;
	free(con);
	fibre_verif_reset();
	console_verif_reset();
	con = calloc(1, sizeof(console_t));
	out = open_memstream(&outbuf, &outlen);
	console_init(con, out);
	for (int i = 0; i < 3; i++) {
		cmds[i].name = names[i];
		cmds[i].fn = capture;
		console_register(&cmds[i]);
	}
	ngot = nwant = 0;
	failed = false;
	vh_sb_reset(&evlog);
}

/* stream and feeder */
static char stream[400];
static int slen, spos, burst_left;
static uint32_t vt;
static int isr_in_pass, isr_total;
static bool in_pass;

static void isr(int level, int id, void *ctx)
{
	(void)level;
	(void)id;
	(void)ctx;
	if (spos >= slen || burst_left <= 0)
		return;
	char ch = stream[spos++];
	burst_left--;
	isr_total++;
	if (in_pass)
		isr_in_pass++;
	vh_sb_add(&evlog, "<%s> ", ch == '\n' ? "NL" : (char[]){ ch, 0 });
	console_putchar(con, ch);
}

static jmp_buf abort_env;

static bool pass(void)
{
	in_pass = true;
	uint32_t w = fibre_scheduler_next(vt);
	in_pass = false;
	return w == vt; /* more work */
}

static void run_idle(int bound, const char *what)
{
	for (int i = 0; i < bound; i++)
		if (!pass())
			return;
	viol("console-fibre-never-idle", "%s: scheduler still reports runnable work after %d passes", what, bound);
}

static void build_stream(vh_rng_t *r, int nlines)
{
	slen = 0;
	nwant = 0;
	for (int l = 0; l < nlines; l++) {
		int c = (int)vh_below(r, 3);
		char a1[8] = "", a2[8] = "";
		int n1 = (int)vh_below(r, 4), n2 = n1 ? (int)vh_below(r, 3) : 0;
		for (int i = 0; i < n1; i++)
			a1[i] = "xyz12"[vh_below(r, 5)];
		for (int i = 0; i < n2; i++)
			a2[i] = "pq7"[vh_below(r, 3)];
		slen += snprintf(stream + slen, sizeof(stream) - (size_t)slen, "%s%s%s%s%s\n", names[c], n1 ? " " : "", a1, n2 ? " " : "", a2);
		want[nwant].cmd = c;
		want[nwant].argc = 1 + (n1 > 0) + (n2 > 0);
		snprintf(want[nwant].a1, sizeof(want[nwant].a1), "%s", a1);
		snprintf(want[nwant].a2, sizeof(want[nwant].a2), "%s", a2);
		nwant++;
	}
}

static void final_compare(void)
{
	if (failed)
		return;
	if (ngot != nwant) {
		viol(ngot < nwant ? "line-never-dispatched" : "line-dispatched-twice",
		     "%d complete lines were fed through console_putchar, %d commands ran by the time the scheduler was idle", nwant, ngot);
		return;
	}
	for (int i = 0; i < nwant; i++)
		if (got[i].cmd != want[i].cmd || got[i].argc != want[i].argc || strcmp(got[i].a1, want[i].a1) || strcmp(got[i].a2, want[i].a2)) {
			viol("dispatch-differs", "line %d: ran {%s %s %s} argc %d, fed {%s %s %s} argc %d", i, names[got[i].cmd], got[i].a1, got[i].a2,
			     got[i].argc, names[want[i].cmd], want[i].a1, want[i].a2, want[i].argc);
			return;
		}
	VH_COUNT_N("lines_dispatched_and_compared", nwant);
}

static void random_case(long long c)
{
	vh_rng_t r;
	vh_rng_seed(&r, vh_opt.seed, 615, (uint64_t)c);
	char key[64];
	snprintf(key, sizeof(key), "random:case=%lld", c);
	vh_case_key(key);
	vh_case_replay("--extra random --only-case %lld", c);
	shim_reset();
	shim_enable(false);
	new_console();
	build_stream(&r, 1 + (int)vh_below(&r, 8));
	spos = 0;
	isr_in_pass = isr_total = 0;
	vt = 100;
	uint32_t rate = 300 + vh_below(&r, 6000);
	snprintf(scen, sizeof(scen), "%d lines (%d characters) fed by interrupts at rate %u/65536 per schedule point, bursts of <= 15", nwant, slen, rate);
	vh_case_desc("%s", scen);
	run_idle(50, "initial prompt");
	shim_set_isr(isr, NULL);
	shim_set_point_limit(3000000);
	shim_set_abort_jmp(&abort_env);
	if (setjmp(abort_env) == 0) {
		int guard = 0;
		while (spos < slen && !failed && guard++ < 400) {
			burst_left = 1 + (int)vh_below(&r, 15);
			shim_reset();
			shim_set_isr(isr, NULL);
			shim_random_isr(0, rate, 15, 0, 1, vh_next(&r));
			/* no nesting: console_putchar inside console_putchar would be two producers on the
			 * one-producer ring buffer, which is outside the supported pattern (C05) */
			shim_enable(true);
			/* run passes until this burst is used up (or the scheduler has idled a few times) */
			for (int k = 0; k < 12 && burst_left > 0 && spos < slen; k++) {
				pass();
				vt++;
			}
			shim_enable(false);
			run_idle(200, "after a burst");
		}
		if (spos < slen && !failed) {
			/* feed the rest plainly */
			while (spos < slen) {
				burst_left = 15;
				for (int k = 0; k < 15 && spos < slen; k++)
					isr(0, 0, NULL);
				run_idle(200, "tail");
			}
		}
	} else {
		viol("livelock", "a library call did not finish within 3000000 schedule points");
	}
	shim_set_abort_jmp(NULL);
	shim_enable(false);
	run_idle(200, "final");
	final_compare();
	vh_evaluations++;
	VH_COUNT("random_runs");
	VH_COUNT_N("characters_fed_by_interrupt", isr_total);
	VH_COUNT_N("characters_fed_inside_a_scheduler_pass", isr_in_pass);
	if (isr_in_pass) {
		uint64_t h = 0x615;
		for (int i = 0; i < evlog.n; i++)
			h = vh_mix(h, (unsigned char)evlog.b[i]);
		vh_distinct(h);
		VH_COUNT("runs_nontrivial");
	}
	if (vh_want_sample() && evlog.n < 400 && isr_in_pass > 3)
		vh_sample("%s | %s", scen, evlog.b);
}

/* the final newline (the wake-up that matters) before every schedule point of a window */
static void sweep(void)
{
	static const char *const lines[] = { "a\n", "aa x\n", "cap xy p\n" };
	static const int wantcmd[] = { 0, 1, 2 };
	uint64_t caseno = 0;
	for (int li = 0; li < 3; li++)
		for (int pre = 0; pre < 3; pre++) { /* passes run before the window: 0 = fibre not yet started, 1.., */
			/* dry run to size the window */
			uint64_t P = 0;
			for (int dry = 1; dry >= 0; dry--) {
				uint64_t upto = dry ? 1 : P;
				for (uint64_t p = 0; p < upto && vh_nviol < 8; p++, caseno += dry ? 0 : 1) {
					if (!dry && (caseno % (uint64_t)vh_opt.nproc) != (uint64_t)vh_opt.proc)
						continue;
					shim_reset();
					shim_enable(false);
					new_console();
					snprintf(stream, sizeof(stream), "%s", lines[li]);
					slen = (int)strlen(stream);
					spos = 0;
					nwant = 1;
					want[0].cmd = wantcmd[li];
					want[0].argc = li == 0 ? 1 : li == 1 ? 2 : 3;
					snprintf(want[0].a1, sizeof(want[0].a1), "%s", li == 0 ? "" : li == 1 ? "x" : "xy");
					snprintf(want[0].a2, sizeof(want[0].a2), "%s", li == 2 ? "p" : "");
					vt = 100;
					isr_in_pass = isr_total = 0;
					char key[96];
					snprintf(key, sizeof(key), "sweep:line=%d,pre=%d,p=%" PRIu64 "%s", li, pre, p, dry ? ",dry" : "");
					vh_case_key(key);
					vh_case_replay("--extra sweep");
					snprintf(scen, sizeof(scen), "line '%.*s<NL>', %d passes before, final newline by interrupt before point %" PRIu64 " of a 3-pass window",
						 slen - 1, stream, pre, p);
					vh_case_desc("%s", scen);
					for (int k = 0; k < pre; k++)
						pass();
					/* everything but the newline arrives first */
					burst_left = 15;
					while (spos < slen - 1)
						isr(0, 0, NULL);
					if (pre)
						run_idle(100, "before the window");
					shim_set_isr(isr, NULL);
					shim_set_point_limit(1000000);
					shim_set_abort_jmp(&abort_env);
					if (setjmp(abort_env) == 0) {
						if (!dry)
							shim_plan_add(0, 0, p, 0);
						shim_enable(true);
						for (int k = 0; k < 3; k++)
							pass();
						shim_enable(false);
						if (dry)
							P = shim_points(0);
					} else
						viol("livelock", "a library call did not finish within 1000000 schedule points");
					shim_set_abort_jmp(NULL);
					if (dry) {
						VH_COUNT_N("window_schedule_points", P);
						continue;
					}
					if (spos < slen) { /* placement beyond what this run reached */
						burst_left = 1;
						isr(0, 0, NULL);
					}
					run_idle(200, "after the window");
					final_compare();
					vh_evaluations++;
					VH_COUNT("newline_placements");
					if (isr_in_pass)
						vh_distinct(vh_mix(vh_mix(0x616, (uint64_t)li * 8 + (uint64_t)pre), p));
					if (vh_want_sample() && p % 41 == 7)
						vh_sample("%s | %s", scen, evlog.b);
				}
			}
		}
	vh_exhaustive = vh_nviol == 0;
	snprintf(vh_note, sizeof(vh_note), "every placement of the line-completing console_putchar in a 3-pass window, 3 lines x 3 scheduler states");
}

/* a free-running input thread (as librfn/posix/console_posix.c has) against the main-context scheduler */
static bool feeder_done;
static vh_rng_t co_r;
static void feeder_thread(void *a)
{
	(void)a;
	int lines_fed = 0;
	while (spos < slen && !failed) {
		/* one line at a time: the previous line must have been dispatched before the next one starts, so
		 * the 15-character ring can never overflow; within a line the console fibre runs concurrently */
		if (ngot < lines_fed) {
			shim_co_backoff();
			continue;
		}
		burst_left = 1;
		bool nl = stream[spos] == '\n';
		isr(0, 0, NULL);
		if (nl)
			lines_fed++;
		if (vh_below(&co_r, 3) == 0)
			shim_co_backoff();
	}
	feeder_done = true;
}
static void sched_thread(void *a)
{
	(void)a;
	int guard = 0;
	while ((!feeder_done || ngot < nwant) && !failed && guard++ < 200000) {
		if (!pass())
			shim_co_backoff();
		vt++;
		if (feeder_done && guard > 100000)
			break;
	}
}
static void co_case(long long c)
{
	vh_rng_seed(&co_r, vh_opt.seed, 616, (uint64_t)c);
	char key[64];
	snprintf(key, sizeof(key), "co:case=%lld", c);
	vh_case_key(key);
	vh_case_replay("--extra co --only-case %lld", c);
	shim_reset();
	shim_enable(false);
	new_console();
	build_stream(&co_r, 1 + (int)vh_below(&co_r, 6));
	spos = 0;
	isr_in_pass = isr_total = 0;
	vt = 100;
	feeder_done = false;
	int policy = vh_below(&co_r, 3) == 0 ? SHIM_POLICY_PCT : SHIM_POLICY_RANDOM;
	static const uint32_t probs[] = { 1311, 6554, 32768 };
	uint32_t param = policy == SHIM_POLICY_PCT ? 1 + vh_below(&co_r, 3) : probs[vh_below(&co_r, 3)];
	snprintf(scen, sizeof(scen), "%d lines fed by a free-running input thread (at most two lines outstanding), %s(%u)", nwant,
		 policy == SHIM_POLICY_PCT ? "PCT d=" : "random p/65536=", param);
	vh_case_desc("%s", scen);
	run_idle(50, "initial prompt");
	shim_co_begin(policy, param, vh_next(&co_r));
	shim_co_spawn(sched_thread, NULL);
	shim_co_spawn(feeder_thread, NULL);
	shim_enable(true);
	bool fin = shim_co_run(6000000);
	shim_enable(false);
	if (!fin && !failed)
		viol("line-never-dispatched", "schedule cut after 6000000 points: %d of %d lines dispatched, %d of %d characters fed", ngot, nwant, spos,
		     slen);
	run_idle(200, "final");
	if (!failed && spos >= slen)
		final_compare();
	vh_evaluations++;
	VH_COUNT("coroutine_schedules");
	VH_COUNT_N("characters_fed_by_thread", isr_total);
	vh_distinct(shim_co_schedule_hash());
	VH_COUNT("runs_nontrivial");
	if (vh_want_sample() && evlog.n < 300 && c % 7 == 1)
		vh_sample("%s | %s", scen, evlog.b);
}

int main(int argc, char **argv)
{
	vh_init(argc, argv, "console_isr");
	const char *mode = vh_opt.extra ? vh_opt.extra : "random";
	if (!strcmp(mode, "sweep"))
		sweep();
	else if (!strcmp(mode, "co")) {
		long long n = vh_opt.cases ? vh_opt.cases : (vh_opt.thorough ? 1000000 : 6000);
		for (long long c = vh_opt.proc; c < n && vh_nviol < 8; c += vh_opt.nproc)
			if (vh_opt.only_case < 0 || c == vh_opt.only_case)
				co_case(c);
	} else {
		long long n = vh_opt.cases ? vh_opt.cases : (vh_opt.thorough ? 2000000 : 8000);
		for (long long c = vh_opt.proc; c < n && vh_nviol < 8; c += vh_opt.nproc)
			if (vh_opt.only_case < 0 || c == vh_opt.only_case)
				random_case(c);
	}
	return vh_finish();
}

/*
 * C11 - tree iterators visit in the promised order, restore the tree, and
 * bintree_free deallocates children before parents without touching freed
 * nodes.
 *
 * Oracle: own recursive traversals; byte snapshot of every node compared after
 * the iterator has returned NULL; deallocator = free(), so ASan turns any
 * later access into a report; dealloc log checked for exactly-once and
 * children-before-parents; parent link checked for the left/right variants.
 *
 * Every node is its own heap block.  With --extra ...:align2 the node lives at
 * an address that is 2 mod 4 inside its block (the statement only promises
 * 2-byte alignment); that stage is built with -fno-sanitize=alignment.
 *
 * mode "shapes": every shape with 0..N nodes (unranked from Catalan indices)
 * mode "big":    random shapes of 20..2000 nodes and degenerate chains
 * mode "lists":  list iterator vs bintree_traverse_list on pure spines
 */
#include "vh.h"

#include <librfn/bintree.h>

typedef struct {
	bintree_node_t n;
	int id;
	uint32_t cookie;
	bool is_list;
} __attribute__((packed, aligned(2))) tnode_t;

static int align_off; /* 0, or 2 for the 2-mod-4 placement */

#define MAXN 12000
static tnode_t *nodes[MAXN]; /* by id (preorder index) */
static char *blocks[MAXN];
static int nnodes;
static int L[MAXN], Rr[MAXN]; /* child ids, -1 = none */

static tnode_t *node_alloc(int id)
{
	char *blk = malloc(sizeof(tnode_t) + 4);
	/* malloc is 16-aligned: blk+align_off is 0 or 2 mod 4 */
	tnode_t *t = (tnode_t *)(blk + align_off);
	memset(t, 0, sizeof(*t));
	t->id = id;
	t->cookie = 0xC0FFEE00u + (uint32_t)id;
	blocks[id] = blk;
	return t;
}

static void link_all(void)
{
	for (int i = 0; i < nnodes; i++)
		nodes[i] = node_alloc(i);
	for (int i = 0; i < nnodes; i++) {
		nodes[i]->n.left = L[i] >= 0 ? &nodes[L[i]]->n : NULL;
		nodes[i]->n.right = Rr[i] >= 0 ? &nodes[Rr[i]]->n : NULL;
	}
}

static bool freed[MAXN];
static int freelog[MAXN], nfreelog;
static void dealloc(bintree_node_t *n)
{
	tnode_t *t = (tnode_t *)n;
	int id = t->id;
	if (id < 0 || id >= nnodes || nodes[id] != t) {
		vh_violation("dealloc-of-unknown-node", vh_cur_replay, "deallocator called with a pointer that is not a node of the tree");
		return;
	}
	if (freed[id]) {
		vh_violation("node-deallocated-twice", vh_cur_replay, "node %d passed to the deallocator twice", id);
		return;
	}
	freed[id] = true;
	if (nfreelog < MAXN)
		freelog[nfreelog++] = id;
	memset(t, 0xEE, sizeof(*t)); /* poison, then really free: ASan watches */
	free(blocks[id]);
	blocks[id] = NULL;
}

static void free_remaining(void)
{
	for (int i = 0; i < nnodes; i++)
		if (blocks[i]) {
			free(blocks[i]);
			blocks[i] = NULL;
		}
}

/* ---- shape unranking ---- */
static uint64_t catalan[20];
static int build_next;
static int unrank(int n, uint64_t idx)
{
	if (n == 0)
		return -1;
	int me = build_next++;
	int k = 0;
	for (;; k++) {
		uint64_t cnt = catalan[k] * catalan[n - 1 - k];
		if (idx < cnt)
			break;
		idx -= cnt;
	}
	uint64_t li = idx / catalan[n - 1 - k], ri = idx % catalan[n - 1 - k];
	L[me] = unrank(k, li);
	Rr[me] = unrank(n - 1 - k, ri);
	return me;
}

/* ---- reference traversals (on the index representation) ---- */
static int ref[MAXN], nref;
static void ref_in(int v)
{
	/* iterative to survive 10^4-long chains */
	static int stack[MAXN];
	int sp = 0;
	while (v >= 0 || sp) {
		while (v >= 0) {
			stack[sp++] = v;
			v = L[v];
		}
		v = stack[--sp];
		ref[nref++] = v;
		v = Rr[v];
	}
}
static void ref_pre(int v)
{
	static int stack[MAXN];
	int sp = 0;
	if (v < 0)
		return;
	stack[sp++] = v;
	while (sp) {
		v = stack[--sp];
		ref[nref++] = v;
		if (Rr[v] >= 0)
			stack[sp++] = Rr[v];
		if (L[v] >= 0)
			stack[sp++] = L[v];
	}
}
static void ref_post(int v)
{
	/* reverse of (root, right, left) preorder */
	static int stack[MAXN];
	int sp = 0, start = nref;
	if (v < 0)
		return;
	stack[sp++] = v;
	while (sp) {
		v = stack[--sp];
		ref[nref++] = v;
		if (L[v] >= 0)
			stack[sp++] = L[v];
		if (Rr[v] >= 0)
			stack[sp++] = Rr[v];
	}
	for (int i = start, j = nref - 1; i < j; i++, j--) {
		int t = ref[i];
		ref[i] = ref[j];
		ref[j] = t;
	}
}

static char shape_desc[VH_TEXT];
static void describe_shape(void)
{
	vh_sb_t sb;
	vh_sb_reset(&sb);
	vh_sb_add(&sb, "%d nodes (id:left,right)", nnodes);
	for (int i = 0; i < nnodes && i < 24; i++)
		vh_sb_add(&sb, " %d:%d,%d", i, L[i], Rr[i]);
	snprintf(shape_desc, sizeof(shape_desc), "%s", sb.b);
}

static tnode_t *snap;
static void snapshot(void)
{
	snap = realloc(snap, sizeof(tnode_t) * (size_t)(nnodes + 1));
	for (int i = 0; i < nnodes; i++)
		memcpy(&snap[i], nodes[i], sizeof(tnode_t));
}
static bool restored(const char *which)
{
	for (int i = 0; i < nnodes; i++)
		if (memcmp(&snap[i], nodes[i], sizeof(tnode_t))) {
			char key[96];
			snprintf(key, sizeof(key), "tree-not-restored-after:%s", which);
			vh_violation(key, vh_cur_replay,
				     "node %d: left=%p right=%p after complete %s iteration, originally left=%p right=%p | shape: %s", i,
				     (void *)nodes[i]->n.left, (void *)nodes[i]->n.right, which, (void *)snap[i].n.left,
				     (void *)snap[i].n.right, shape_desc);
			/* put it back so later phases see a sane tree */
			memcpy(nodes[i], &snap[i], sizeof(tnode_t));
			return false;
		}
	return true;
}

typedef bintree_node_t *(iter_start_t)(bintree_iterator_t *, bintree_node_t *);

static bool run_iter(const char *which, iter_start_t *start, void (*reffn)(int))
{
	bintree_iterator_t it;
	memset(&it, 0xAA, sizeof(it)); /* the API does not ask for an initialised iterator: hand over junk */
	nref = 0;
	reffn(nnodes ? 0 : -1);
	snapshot();
	int k = 0;
	bintree_node_t *root = nnodes ? &nodes[0]->n : NULL;
	for (bintree_node_t *n = start(&it, root); n; n = bintree_next(&it), k++) {
		tnode_t *t = (tnode_t *)n;
		int id = (k <= nnodes) ? t->id : -1;
		if (k >= nref || id != ref[k]) {
			char key[96];
			snprintf(key, sizeof(key), "wrong-order:%s", which);
			vh_violation(key, vh_cur_replay, "%s iterator returned node %d as element %d, recursive traversal gives %d | shape: %s",
				     which, id, k, k < nref ? ref[k] : -1, shape_desc);
			/* drain (bounded) so the tree gets a chance to be restored */
			for (int g = 0; g < 4 * nnodes + 8 && bintree_next(&it); g++)
				;
			for (int i = 0; i < nnodes; i++)
				memcpy(nodes[i], &snap[i], sizeof(tnode_t));
			return false;
		}
	}
	if (k != nref) {
		char key[96];
		snprintf(key, sizeof(key), "wrong-count:%s", which);
		vh_violation(key, vh_cur_replay, "%s iterator returned %d nodes, tree has %d | shape: %s", which, k, nref, shape_desc);
		for (int i = 0; i < nnodes; i++)
			memcpy(nodes[i], &snap[i], sizeof(tnode_t));
		return false;
	}
	/* a finished iterator keeps returning NULL */
	if (bintree_next(&it) != NULL) {
		vh_violation("iterator-not-finished", vh_cur_replay, "%s iterator returned a node after NULL | shape: %s", which, shape_desc);
		return false;
	}
	VH_COUNT("iterations_compared");
	return restored(which);
}

/* checks the dealloc log for the subtree rooted at v */
static int subtree[MAXN], nsub;
static void collect(int v)
{
	static int stack[MAXN];
	int sp = 0;
	nsub = 0;
	if (v < 0)
		return;
	stack[sp++] = v;
	while (sp) {
		v = stack[--sp];
		subtree[nsub++] = v;
		if (L[v] >= 0)
			stack[sp++] = L[v];
		if (Rr[v] >= 0)
			stack[sp++] = Rr[v];
	}
}
static bool check_freelog(int root, const char *which)
{
	collect(root);
	static int pos[MAXN];
	for (int i = 0; i < nnodes; i++)
		pos[i] = -1;
	for (int i = 0; i < nfreelog; i++)
		pos[freelog[i]] = i;
	char key[96];
	if (nfreelog != nsub) {
		snprintf(key, sizeof(key), "free-count:%s", which);
		vh_violation(key, vh_cur_replay, "%s deallocated %d nodes, subtree has %d | shape: %s", which, nfreelog, nsub, shape_desc);
		return false;
	}
	for (int i = 0; i < nsub; i++) {
		int v = subtree[i];
		if (pos[v] < 0) {
			snprintf(key, sizeof(key), "node-not-freed:%s", which);
			vh_violation(key, vh_cur_replay, "%s never deallocated node %d | shape: %s", which, v, shape_desc);
			return false;
		}
		if ((L[v] >= 0 && pos[L[v]] > pos[v]) || (Rr[v] >= 0 && pos[Rr[v]] > pos[v])) {
			snprintf(key, sizeof(key), "parent-freed-before-child:%s", which);
			vh_violation(key, vh_cur_replay, "%s deallocated node %d before one of its children | shape: %s", which, v, shape_desc);
			return false;
		}
	}
	VH_COUNT("free_logs_checked");
	return true;
}

static void reset_free(void)
{
	memset(freed, 0, sizeof(bool) * (size_t)(nnodes + 1));
	nfreelog = 0;
}

static bool shape_nontrivial(void)
{
	/* a node with both children whose left subtree has a right spine >= 2 */
	for (int v = 0; v < nnodes; v++)
		if (L[v] >= 0 && Rr[v] >= 0) {
			int s = 0;
			for (int w = L[v]; w >= 0; w = Rr[w])
				s++;
			if (s >= 2)
				return true;
		}
	return false;
}

static void test_current_shape(bool with_subfree)
{
	describe_shape();
	vh_case_desc("%s", shape_desc);
	link_all();
	bool ok = run_iter("in-order", bintree_iterate_in_order, ref_in);
	ok = run_iter("pre-order", bintree_iterate_pre_order, ref_pre) && ok;
	ok = run_iter("post-order", bintree_iterate_post_order, ref_post) && ok;
	/* twice in a row: restoration must be good enough to iterate again */
	ok = ok && run_iter("post-order", bintree_iterate_post_order, ref_post);
	ok = ok && run_iter("in-order", bintree_iterate_in_order, ref_in);
	if (!ok) {
		free_remaining();
		return;
	}
	/* free the whole tree */
	reset_free();
	if (nnodes) {
		bintree_free(&nodes[0]->n, dealloc);
		check_freelog(0, "bintree_free");
	} else {
		bintree_free(NULL, dealloc);
		if (nfreelog)
			vh_violation("free-of-empty-tree", vh_cur_replay, "bintree_free(NULL) called the deallocator");
	}
	free_remaining();

	if (!with_subfree || nnodes == 0)
		return;
	/* left/right variants at every node, then the rest must still be a sane tree */
	for (int v = 0; v < nnodes; v++)
		for (int side = 0; side < 2; side++) {
			int child = side ? Rr[v] : L[v];
			link_all();
			reset_free();
			snapshot();
			if (side)
				bintree_free_right(&nodes[v]->n, dealloc);
			else
				bintree_free_left(&nodes[v]->n, dealloc);
			bool good = check_freelog(child, side ? "bintree_free_right" : "bintree_free_left");
			bintree_node_t *lnk = side ? nodes[v]->n.right : nodes[v]->n.left;
			if (good && lnk != NULL) {
				vh_violation(side ? "parent-link-not-cleared:bintree_free_right" : "parent-link-not-cleared:bintree_free_left",
					     vh_cur_replay, "after freeing the %s subtree of node %d its link is %p | shape: %s",
					     side ? "right" : "left", v, (void *)lnk, shape_desc);
				good = false;
			}
			/* every surviving node other than v is byte-identical; v differs only in that link */
			for (int i = 0; good && i < nnodes; i++) {
				if (freed[i])
					continue;
				tnode_t exp = snap[i];
				if (i == v) {
					if (side)
						exp.n.right = NULL;
					else
						exp.n.left = NULL;
				}
				if (memcmp(&exp, nodes[i], sizeof(exp))) {
					vh_violation("survivor-modified-by-subtree-free", vh_cur_replay,
						     "node %d changed when the %s subtree of node %d was freed | shape: %s", i,
						     side ? "right" : "left", v, shape_desc);
					good = false;
				}
			}
			if (good) {
				/* now the remainder goes: every surviving node exactly once */
				int before = nfreelog;
				int saveL = L[v], saveR = Rr[v];
				if (side)
					Rr[v] = -1;
				else
					L[v] = -1;
				nfreelog = 0;
				bintree_free(&nodes[0]->n, dealloc);
				check_freelog(0, "bintree_free(after subtree free)");
				L[v] = saveL;
				Rr[v] = saveR;
				(void)before;
			}
			free_remaining();
			VH_COUNT("subtree_frees");
		}
}

static void shapes(void)
{
	int N = vh_opt.thorough ? 14 : 11;
	if (vh_opt.cases)
		N = (int)vh_opt.cases;
	catalan[0] = 1;
	for (int n = 1; n < 20; n++) {
		catalan[n] = 0;
		for (int k = 0; k < n; k++)
			catalan[n] += catalan[k] * catalan[n - 1 - k];
	}
	uint64_t caseno = 0, nt = 0;
	for (int n = 0; n <= N; n++) {
		for (uint64_t idx = 0; idx < catalan[n]; idx++, caseno++) {
			if ((caseno % (uint64_t)vh_opt.nproc) != (uint64_t)vh_opt.proc)
				continue;
			if (vh_opt.only_case >= 0 && caseno != (uint64_t)vh_opt.only_case)
				continue;
			char key[64];
			snprintf(key, sizeof(key), "shape:n=%d,idx=%" PRIu64, n, idx);
			vh_case_key(key);
			vh_case_replay("--extra %s --cases %d --only-case %" PRIu64, vh_opt.extra, N, caseno);
			nnodes = n;
			build_next = 0;
			unrank(n, idx);
			test_current_shape(n <= 7);
			vh_evaluations++;
			if (shape_nontrivial())
				nt++;
			if (n == 6 && idx % 40 == 3 && vh_want_sample())
				vh_sample("%s", shape_desc);
			if (vh_nviol >= 8)
				goto out;
		}
	}
out:
	VH_COUNT_N("shapes_tested", vh_evaluations);
	VH_COUNT_N("__distinct_exact", nt);
	VH_COUNT_N("shapes_with_thread_through_right_spine>=2", nt);
	vh_exhaustive = vh_nviol == 0;
	snprintf(vh_note, sizeof(vh_note), "every binary tree shape with 0..%d nodes%s", N,
		 align_off ? " (nodes placed at addresses 2 mod 4)" : "");
}

static void big(void)
{
	long long n = vh_opt.cases ? vh_opt.cases : (vh_opt.thorough ? 10000 : 600);
	for (long long c = vh_opt.proc; c < n; c += vh_opt.nproc) {
		if (vh_opt.only_case >= 0 && c != vh_opt.only_case)
			continue;
		vh_rng_t r;
		vh_rng_seed(&r, vh_opt.seed, 11, (uint64_t)c);
		char key[64];
		snprintf(key, sizeof(key), "big:case=%lld", c);
		vh_case_key(key);
		vh_case_replay("--extra %s --only-case %lld", vh_opt.extra, c);
		if (c < 4) {
			/* degenerate chains */
			nnodes = vh_opt.thorough ? 10000 : 3000;
			for (int i = 0; i < nnodes; i++) {
				int nx = i + 1 < nnodes ? i + 1 : -1;
				L[i] = (c == 0 || (c == 2 && (i & 1))) ? nx : -1;
				Rr[i] = L[i] >= 0 ? -1 : nx;
				if (c == 3) { /* zig-zag the other way */
					L[i] = (i & 1) ? -1 : nx;
					Rr[i] = (i & 1) ? nx : -1;
				}
			}
			VH_COUNT("degenerate_chains");
		} else {
			nnodes = 20 + (int)vh_below(&r, 1981);
			/* random shape: attach node i to a random free slot; bias gives deep or bushy trees */
			for (int i = 0; i < nnodes; i++)
				L[i] = Rr[i] = -1;
			int bias = (int)vh_below(&r, 3);
			for (int i = 1; i < nnodes; i++) {
				for (;;) {
					int p = bias == 0 ? (int)vh_below(&r, (uint32_t)i) :
						bias == 1 ? i - 1 - (int)vh_below(&r, (uint32_t)(i < 4 ? i : 4)) :
							    (int)(vh_below(&r, (uint32_t)i) / 2 + i / 2);
					if (p >= i)
						p = i - 1;
					int side = (int)vh_below(&r, 2);
					if (side == 0 && L[p] < 0) {
						L[p] = i;
						break;
					}
					if (side == 1 && Rr[p] < 0) {
						Rr[p] = i;
						break;
					}
				}
			}
		}
		test_current_shape(false);
		vh_evaluations++;
		uint64_t h = 11;
		for (int i = 0; i < nnodes; i++)
			h = vh_mix(h, (uint64_t)(L[i] + 1) * 65536 + (uint64_t)(Rr[i] + 1));
		if (shape_nontrivial())
			vh_distinct(h);
		VH_COUNT("big_shapes");
		if (vh_want_sample() && (c == 1 || c % 50 == 7))
			vh_sample("big shape case %lld: %d nodes, in/pre/post-order compared, restored, freed (first links: %.200s)", c, nnodes, shape_desc);
	}
}

/* ---- list iterator ---- */
static bool is_list_fn(bintree_node_t *n)
{
	return n && ((tnode_t *)n)->is_list;
}
static int lv[64], nlv;
static void list_visitor(void *ctx, bintree_node_t *n)
{
	(void)ctx;
	if (nlv < 64)
		lv[nlv++] = n ? ((tnode_t *)n)->id : -1; /* -1: the visitor was handed an empty link */
}

static void lists(void)
{
	int maxlen = 12;
	long long caseno = 0;
	for (int leaning = 0; leaning < 2; leaning++)
		for (int len = 0; len <= maxlen; len++)
			for (int es = 0; es < 6; es++, caseno++) {
				/* nullterm: a right-leaning spine that ends cons-cell style, with an empty right link
				 * instead of a last element (both the traversal and the iterator accept it) */
				int elemstyle = es % 3, nullterm = es / 3;
				if (nullterm && (leaning == 0 || len == 0))
					continue;
				if ((caseno % vh_opt.nproc) != vh_opt.proc)
					continue;
				int nel = nullterm ? len : len + 1;
				char key[64];
				snprintf(key, sizeof(key), "lists:%s,len=%d,elems=%d%s", leaning ? "right" : "left", len, elemstyle,
					 nullterm ? ",nil-terminated" : "");
				vh_case_key(key);
				vh_case_replay("--extra %s", vh_opt.extra);
				/* len list nodes -> len+1 elements; len==0: a single element.
				 * ids: list nodes 0..len-1 (top first), elements len.. ; element style 1 and 2 give
				 * elements small non-list subtrees of their own */
				int id = 0;
				nnodes = 0;
				int spine[16], elems[16];
				for (int i = 0; i < len; i++)
					spine[i] = id++;
				for (int i = 0; i < nel; i++)
					elems[i] = id++;
				nnodes = id;
				for (int i = 0; i < 64; i++)
					L[i] = Rr[i] = -1;
				int extra = id;
				if (leaning == 0) {
					/* ((e0,e1),e2),e3 : top = spine[0]; spine[i].left = spine[i+1] ... deepest holds e0,e1 */
					for (int i = 0; i < len; i++) {
						L[spine[i]] = i + 1 < len ? spine[i + 1] : elems[0];
						Rr[spine[i]] = elems[len - i];
					}
				} else {
					for (int i = 0; i < len; i++) {
						L[spine[i]] = elems[i];
						Rr[spine[i]] = i + 1 < len ? spine[i + 1] : nullterm ? -1 : elems[len];
					}
				}
				if (elemstyle)
					for (int i = 0; i < nel; i++) {
						if (elemstyle == 1 || (i & 1))
							L[elems[i]] = extra++;
						if (elemstyle == 2)
							Rr[elems[i]] = extra++;
					}
				nnodes = extra;
				for (int i = 0; i < nnodes; i++)
					if (L[i] >= nnodes || Rr[i] >= nnodes)
						abort();
				describe_shape();
				vh_case_desc("%s-leaning %slist of %d list nodes: %s", leaning ? "right" : "left", nullterm ? "nil-terminated " : "", len,
					     shape_desc);
				link_all();
				for (int i = 0; i < len; i++)
					nodes[spine[i]]->is_list = true;
				snapshot();
				bintree_node_t *root = &nodes[0]->n;
				nlv = 0;
				bintree_traverse_list(root, is_list_fn, list_visitor, NULL);
				bintree_iterator_t it;
				memset(&it, 0xAA, sizeof(it));
				int k = 0;
				bool ok = true;
				for (bintree_node_t *n = bintree_iterate_list(&it, root, is_list_fn); n; n = bintree_next(&it), k++) {
					int got = ((tnode_t *)n)->id;
					if (k >= nlv || got != lv[k]) {
						char k2[96];
						snprintf(k2, sizeof(k2), "list-iterator-differs:%s-leaning", leaning ? "right" : "left");
						vh_violation(k2, vh_cur_replay, "element %d is node %d, bintree_traverse_list gives %d | %s", k, got,
							     k < nlv ? lv[k] : -1, vh_cur_case);
						ok = false;
						break;
					}
					if (k > 40)
						break;
				}
				if (ok && k != nlv) {
					char k2[96];
					snprintf(k2, sizeof(k2), "list-iterator-count:%s-leaning", leaning ? "right" : "left");
					vh_violation(k2, vh_cur_replay, "iterator yielded %d elements, traversal %d | %s", k, nlv, vh_cur_case);
					ok = false;
				}
				/* expected element order by construction: elems[0..nel-1] */
				if (ok && nlv != nel) {
					vh_violation("list-traversal-unexpected", vh_cur_replay, "traverse_list visited %d elements of a list built with %d | %s",
						     nlv, nel, vh_cur_case);
					ok = false;
				}
				for (int i = 0; ok && i < nel; i++)
					if (lv[i] != elems[i]) {
						vh_violation("list-traversal-unexpected", vh_cur_replay, "traverse_list element %d is node %d, built as %d | %s",
							     i, lv[i], elems[i], vh_cur_case);
						ok = false;
					}
				if (ok)
					restored("list");
				vh_evaluations++;
				VH_COUNT("list_spines_compared");
				if (nullterm)
					VH_COUNT("list_spines_nil_terminated");
				if (len >= 2)
					vh_distinct(vh_mix(vh_mix(0x1157, (uint64_t)leaning), (uint64_t)len * 8 + (uint64_t)es));
				if (vh_want_sample() && len == 3 && elemstyle == 0)
					vh_sample("%s", vh_cur_case);
				free_remaining();
			}
}

int main(int argc, char **argv)
{
	vh_init(argc, argv, "bintree");
	const char *mode = vh_opt.extra ? vh_opt.extra : "shapes";
	if (strstr(mode, ":align2"))
		align_off = 2;
	if (!strncmp(mode, "shapes", 6))
		shapes();
	else if (!strncmp(mode, "big", 3))
		big();
	else
		lists();
	return vh_finish();
}

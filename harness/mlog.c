/*
 * C20 - memory log holds the most recent 256 messages, oldest first,
 * including across the wrap of the internal counter after 2^31 messages.
 *
 * Model: array of every message logged since the last clear (format, three
 * arguments); count n.  After every operation (sampled for cost) all of
 * mlog_get_line(k), k in {-2,-1,0..257,INT_MAX,INT_MIN}, and mlog_dump are
 * compared with the model's formatted text.
 *
 * mode "hist": random interleavings with counts from 0 through 5x256.
 * mode "wraphook": mlog_verif_set_count() places the counter below 0x7fffffff.
 * mode "wrapreal" (thorough): really logs 2^31 + 1000 messages.
 */
#include "vh.h"

#include <limits.h>
#include <librfn/mlog.h>

void mlog_verif_set_count(unsigned int count);

static const char *const fmts[] = {
	"plain message\n",
	"one %lu\n",
	"two %lu and %lx\n",
	"three %lu/%lu/%lu\n",
	"str %s #%lu\n",
	"neg %ld then %lu then %lx\n",
	"a\n",
	"%lu\n",
	"%s|%lu\n", /* with a string of any length 0..199: formatted lengths sweep past every plausible buffer size */
	"",	    /* a message whose text is empty */
	"%s",	    /* ... or may be empty, depending on its argument; no trailing newline */
	"no newline %lu",
	"[%*lu] rc=%lu;\n",	 /* a '*' width: three arguments for two conversions */
	"%*.*lu;\n",		 /* width and precision from the argument list */
	"%lu%% done, %lu left;\n", /* a literal percent sign in the text */
	"note: %s (%lu)\n",	 /* ... or one that arrives through a string argument */
};
#define NFMT (sizeof(fmts) / sizeof(fmts[0]))
static const char *const words[] = { "alpha", "beta", "gamma", "", "a longer string with spaces" };
static const char *const pct_words[] = { "100%", "50% of %lu", "%%", "a % b", "plain" };

typedef struct {
	uint8_t fmt;
	uintptr_t a[3];
} msg_t;

/* model: only the last 256 need to be kept, plus the count */
static msg_t ring[256];
static uint64_t model_n;

static void model_log(msg_t m)
{
	ring[model_n % 256] = m;
	model_n++;
}
static const msg_t *model_line(int64_t k)
{
	uint64_t have = model_n < 256 ? model_n : 256;
	if (k < 0 || (uint64_t)k >= have)
		return NULL;
	return &ring[(model_n - have + (uint64_t)k) % 256];
}
static void fmt_msg(char *buf, size_t sz, const msg_t *m)
{
#pragma GCC diagnostic push
#pragma GCC diagnostic ignored "-Wformat-nonliteral"
#pragma GCC diagnostic ignored "-Wformat-security"
#pragma GCC diagnostic ignored "-Wformat-extra-args"
	snprintf(buf, sz, fmts[m->fmt], m->a[0], m->a[1], m->a[2]);
#pragma GCC diagnostic pop
}

static char longstr[200][201];
static void init_longstr(void)
{
	for (int n = 0; n < 200; n++) {
		for (int i = 0; i < n; i++)
			longstr[n][i] = (char)('a' + (i * 7 + n) % 26);
		longstr[n][n] = 0;
	}
}

static msg_t gen_msg(vh_rng_t *r, uint64_t serial)
{
	msg_t m;
	m.fmt = (uint8_t)vh_below(r, NFMT);
	m.a[0] = serial;
	m.a[1] = vh_next(r) >> vh_below(r, 60);
	m.a[2] = vh_below(r, 1000);
	if (m.fmt == 4) {
		m.a[0] = (uintptr_t)words[vh_below(r, 5)];
		m.a[1] = serial;
	}
	if (m.fmt == 12) { /* "[%*lu] rc=%lu;" */
		m.a[0] = 1 + vh_below(r, 12);
		m.a[1] = serial;
		m.a[2] = vh_below(r, 1000);
	}
	if (m.fmt == 13) { /* "%*.*lu;" */
		m.a[0] = 1 + vh_below(r, 12);
		m.a[1] = vh_below(r, 8);
		m.a[2] = serial % 100000;
	}
	if (m.fmt == 15) {
		m.a[0] = (uintptr_t)pct_words[vh_below(r, 5)];
		m.a[1] = serial;
	}
	if (m.fmt == 10)
		m.a[0] = (uintptr_t)words[vh_below(r, 2) ? 3 : vh_below(r, 5)];
	if (m.fmt == 8) {
		m.a[0] = (uintptr_t)longstr[vh_below(r, 200)];
		m.a[1] = serial % 1000;
	}
	return m;
}

static void do_log(const msg_t *m, int nice)
{
	/* call with exactly as many variadic arguments as the format uses for
	 * half the messages and with all three for the rest */
#pragma GCC diagnostic push
#pragma GCC diagnostic ignored "-Wformat-nonliteral"
#pragma GCC diagnostic ignored "-Wformat-security"
#pragma GCC diagnostic ignored "-Wformat-extra-args"
	if (m->fmt == 9 || (m->fmt == 10 && !*(const char *)m->a[0]))
		VH_COUNT("messages_with_empty_text");
	if (m->fmt == 12 || m->fmt == 13)
		VH_COUNT("messages_with_star_width_or_precision");
	if (m->fmt == 14 || (m->fmt == 15 && strchr((const char *)m->a[0], '%')))
		VH_COUNT("messages_with_percent_sign_in_text");
	if (nice)
		mlog_nice(fmts[m->fmt], m->a[0], m->a[1], m->a[2]);
	else
		mlog(fmts[m->fmt], m->a[0], m->a[1], m->a[2]);
#pragma GCC diagnostic pop
}

static char opsbuf[VH_TEXT];
static const char *ctx_desc = "";

static bool check_line(int k)
{
	char want[256];
	const msg_t *m = model_line(k);
	char *got = mlog_get_line(k);
	bool ok = true;
	VH_COUNT("get_line_comparisons");
	if (!m) {
		if (got) {
			vh_violation("get_line-should-be-NULL", vh_cur_replay,
				     "%s: after n=%" PRIu64 " messages mlog_get_line(%d) returned \"%s\", expected NULL", ctx_desc,
				     model_n, k, got);
			ok = false;
		}
	} else {
		fmt_msg(want, sizeof(want), m);
		if (!got || strcmp(got, want)) {
			char key[96];
			snprintf(key, sizeof(key), "get_line-wrong-text:%s", !got ? "NULL" : "different-message");
			vh_violation(key, vh_cur_replay,
				     "%s: after n=%" PRIu64 " messages mlog_get_line(%d) returned %s%s%s, expected \"%s\"", ctx_desc,
				     model_n, k, got ? "\"" : "", got ? got : "NULL", got ? "\"" : "", want);
			ok = false;
		}
	}
	free(got);
	return ok;
}

static bool check_all(bool with_dump)
{
	bool ok = true;
	static const int extra[] = { -2, -1, 256, 257, 258, 511, 512, 1000, INT_MAX, INT_MIN, INT_MAX - 255, 0x7fffff00 };
	for (unsigned i = 0; i < sizeof(extra) / sizeof(extra[0]) && ok; i++)
		ok = check_line(extra[i]);
	for (int k = 0; k < 256 && ok; k++)
		ok = check_line(k);
	if (with_dump && ok) {
		char *buf = NULL;
		size_t len = 0;
		FILE *f = open_memstream(&buf, &len);
		mlog_dump(f);
		fclose(f);
		/* expected */
		char *exp = malloc(256 * 256 + 1);
		size_t n = 0;
		uint64_t have = model_n < 256 ? model_n : 256;
		for (uint64_t k = 0; k < have; k++) {
			char line[256];
			fmt_msg(line, sizeof(line), model_line((int64_t)k));
			size_t l = strlen(line);
			memcpy(exp + n, line, l);
			n += l;
		}
		exp[n] = 0;
		VH_COUNT("dump_comparisons");
		if (len != n || memcmp(buf, exp, n)) {
			vh_violation("dump-differs", vh_cur_replay, "%s: after n=%" PRIu64 " messages mlog_dump wrote %zu bytes, expected %zu", ctx_desc,
				     model_n, len, n);
			ok = false;
		}
		free(exp);
		free(buf);
	}
	return ok;
}

static void hist_case(long long c)
{
	vh_rng_t r;
	vh_rng_seed(&r, vh_opt.seed, 20, (uint64_t)c);
	char key[64];
	snprintf(key, sizeof(key), "hist:case=%lld", c);
	vh_case_key(key);
	vh_case_replay("--extra hist --only-case %lld", c);
	ctx_desc = key;
	mlog_clear();
	model_n = 0;
	/* target counts dense around multiples of 256 */
	int nops = 3 + (int)vh_below(&r, 40);
	uint64_t serial = 0;
	bool saw_wrap = false, saw_nice_refused = false, saw_clear_after_wrap = false;
	vh_sb_t sb;
	vh_sb_reset(&sb);
	for (int op = 0; op < nops; op++) {
		uint32_t x = vh_below(&r, 100);
		if (x < 8) {
			mlog_clear();
			if (model_n > 256)
				saw_clear_after_wrap = true;
			model_n = 0;
			vh_sb_add(&sb, "clear ");
		} else if (x < 60) {
			/* burst of mlog to land near a multiple of 256 */
			uint64_t target;
			uint32_t y = vh_below(&r, 10);
			uint64_t base = 256 * (uint64_t)vh_below(&r, 6);
			if (y < 6)
				target = base + vh_below(&r, 7) - 3; /* -3..+3 around */
			else
				target = vh_below(&r, 1400);
			if ((int64_t)target < 0)
				target = 0;
			uint64_t cnt = target > model_n ? target - model_n : vh_below(&r, 4);
			if (cnt > 700)
				cnt = 700;
			for (uint64_t i = 0; i < cnt; i++) {
				msg_t m = gen_msg(&r, serial++);
				do_log(&m, 0);
				model_log(m);
			}
			vh_sb_add(&sb, "mlog*%" PRIu64 "(n=%" PRIu64 ") ", cnt, model_n);
			if (model_n > 256)
				saw_wrap = true;
		} else if (x < 85) {
			uint32_t cnt = 1 + vh_below(&r, 5);
			if (vh_below(&r, 4) == 0)
				cnt = 250 + vh_below(&r, 12);
			uint32_t refused = 0;
			for (uint32_t i = 0; i < cnt; i++) {
				msg_t m = gen_msg(&r, serial++);
				do_log(&m, 1);
				if (model_n < 256)
					model_log(m);
				else
					refused++;
			}
			if (refused)
				saw_nice_refused = true;
			vh_sb_add(&sb, "nice*%u(refused %u,n=%" PRIu64 ") ", cnt, refused, model_n);
		} else {
			vh_sb_add(&sb, "read ");
		}
		snprintf(opsbuf, sizeof(opsbuf), "%s", sb.b);
		vh_case_desc("%s", opsbuf);
		if (!check_all(vh_below(&r, 3) == 0))
			break;
	}
	check_all(true);
	vh_evaluations++;
	if (saw_wrap || saw_nice_refused) {
		uint64_t sig = vh_mix(vh_mix(model_n, saw_nice_refused), vh_mix(nops, saw_clear_after_wrap));
		vh_distinct(vh_mix(sig, (uint64_t)c));
		VH_COUNT("histories_passing_256_or_refusing_nice");
	}
	if (vh_want_sample() && saw_wrap)
		vh_sample("%s", sb.b);
}

/* fill with >= 256 messages, move the counter just below the fold, continue */
static void wraphook_case(long long c)
{
	vh_rng_t r;
	vh_rng_seed(&r, vh_opt.seed, 21, (uint64_t)c);
	char key[64];
	snprintf(key, sizeof(key), "wraphook:k=%lld", c);
	vh_case_key(key);
	vh_case_replay("--extra wraphook --only-case %lld", c);
	ctx_desc = key;
	mlog_clear();
	model_n = 0;
	uint64_t serial = 0;
	uint64_t prefill = 256 + vh_below(&r, 600);
	for (uint64_t i = 0; i < prefill; i++) {
		msg_t m = gen_msg(&r, serial++);
		do_log(&m, 0);
		model_log(m);
	}
	/* counter value H = 0x7fffffff - k' with H == prefill (mod 256) */
	uint64_t H = 0x7fffffffull - (uint64_t)c;
	while (H % 256 != prefill % 256)
		H--;
	mlog_verif_set_count((unsigned)H);
	/* model count is unbounded; keep congruence so slots line up */
	model_n = H;
	vh_case_desc("prefill %" PRIu64 " then counter placed at 0x%" PRIx64, prefill, H);
	uint64_t more = (0x7fffffffull - H) + 300 + vh_below(&r, 300);
	bool ok = check_all(true);
	for (uint64_t i = 0; i < more && ok; i++) {
		uint32_t x = vh_below(&r, 20);
		msg_t m = gen_msg(&r, serial++);
		if (x == 0) {
			do_log(&m, 1); /* nice must refuse: far more than 256 recorded */
		} else {
			do_log(&m, 0);
			model_log(m);
		}
		/* full read-back around the fold, sampled elsewhere */
		int64_t dist = (int64_t)model_n - 0x7fffffffll;
		if (llabs(dist) <= 4 || (dist >= 252 && dist <= 260) || vh_below(&r, 16) == 0)
			ok = check_all(llabs(dist) <= 2);
		else
			ok = check_line((int)vh_below(&r, 256)) && check_line(255) && check_line(0) && check_line(256);
	}
	if (ok)
		check_all(true);
	/* after the fold a clear must still give an empty log and nice works again */
	mlog_clear();
	model_n = 0;
	msg_t m = gen_msg(&r, serial++);
	do_log(&m, 1);
	model_log(m);
	check_all(true);
	vh_evaluations++;
	VH_COUNT("histories_crossing_counter_fold(hook)");
	vh_distinct(vh_mix(vh_mix(0x20, H), prefill));
	if (vh_want_sample())
		vh_sample("prefill %" PRIu64 " mlog, mlog_verif_set_count(0x%" PRIx64 "), %" PRIu64 " more mlog/mlog_nice with read-back, clear, nice", prefill, H, more);
}

static void wrapreal(void)
{
	vh_rng_t r;
	vh_rng_seed(&r, vh_opt.seed, 22, 0);
	vh_case_key("wrapreal");
		vh_case_budget(3600);
	vh_case_replay("--extra wrapreal");
	ctx_desc = "wrapreal";
	mlog_clear();
	model_n = 0;
	uint64_t total = (1ull << 31) + 1000;
	static const char *const f = "three %lu/%lu/%lu\n";
	(void)f;
	bool ok = true;
	for (uint64_t i = 0; i < total && ok; i++) {
		msg_t m;
		m.fmt = 3;
		m.a[0] = i;
		m.a[1] = i ^ 0x5555;
		m.a[2] = i >> 7;
		mlog(fmts[3], m.a[0], m.a[1], m.a[2]);
		model_log(m);
		int64_t dist = (int64_t)model_n - 0x7fffffffll;
		if (dist >= -1000 && dist <= 1000)
			ok = (dist % 50 == 0 || llabs(dist) <= 3) ? check_all(true) : (check_line(0) && check_line(255));
		else if ((i & 0xffffff) == 0)
			ok = check_all(false);
	}
	vh_evaluations++;
	VH_COUNT_N("messages_really_logged", total);
	VH_COUNT("histories_crossing_counter_fold(real)");
	vh_distinct(0x22);
	vh_distinct(0x23);
	vh_sample("really logged 2^31+1000 messages; full read-back every 50 messages within 1000 of the fold");
}

int main(int argc, char **argv)
{
	vh_init(argc, argv, "mlog");
	init_longstr();
	const char *mode = vh_opt.extra ? vh_opt.extra : "hist";
	if (!strcmp(mode, "hist")) {
		long long n = vh_opt.cases ? vh_opt.cases : (vh_opt.thorough ? 40000 : 2500);
		for (long long c = vh_opt.proc; c < n; c += vh_opt.nproc)
			if (vh_opt.only_case < 0 || c == vh_opt.only_case)
				hist_case(c);
	} else if (!strcmp(mode, "wraphook")) {
		long long n = vh_opt.cases ? vh_opt.cases : (vh_opt.thorough ? 601 : 160);
		for (long long c = vh_opt.proc; c < n; c += vh_opt.nproc)
			if (vh_opt.only_case < 0 || c == vh_opt.only_case)
				wraphook_case(vh_opt.thorough ? c : (c < 40 ? c : (c - 40) * 5 + 40));
	} else {
		wrapreal();
	}
	return vh_finish();
}

/*
 * C17 - rand31_r is the Park-Miller minimal standard generator.
 * Oracle: (16807 * (uint64_t) s) % 2147483647 for every state 1..2^31-2;
 * the returned value equals the stored state and lies in 1..2^31-2.
 * mode "traj": follows the orbit of 1 and counts the steps until it returns
 * (the full period is then observed, not inferred).
 */
#include "vh.h"

#include <librfn/rand.h>

#define M 2147483647ull

int main(int argc, char **argv)
{
	vh_init(argc, argv, "rand31");
	const char *mode = vh_opt.extra ? vh_opt.extra : "exh";
	if (!strcmp(mode, "exh") || !strcmp(mode, "sample")) {
		uint64_t total = M - 1; /* states 1..M-1 */
		uint64_t per = (total + vh_opt.nproc - 1) / vh_opt.nproc;
		uint64_t lo = 1 + per * vh_opt.proc, hi = lo + per;
		if (hi > M)
			hi = M;
		uint64_t stride = !strcmp(mode, "sample") ? 61 : 1;
		uint64_t carry_cases = 0, n = 0;
		char key[64];
		snprintf(key, sizeof(key), "exh:block=%d", vh_opt.proc);
		vh_case_key(key);
		vh_case_budget(900);
		for (uint64_t s = lo; s < hi; s += stride) {
			uint32_t st = (uint32_t)s;
			uint32_t r = rand31_r(&st);
			uint64_t prod = 16807ull * s;
			uint32_t want = (uint32_t)(prod % M);
			/* Carta's carry case: folded sum reaches 2^31-1 */
			if ((prod >> 31) + (prod & 0x7fffffff) >= M)
				carry_cases++;
			n++;
			if (r != want || st != want || r < 1 || r > M - 1) {
				vh_violation(r != want ? "wrong-successor" : st != want ? "state-not-updated" : "out-of-range",
					     "", "rand31_r(state=%" PRIu64 ") returned %u, state now %u, 16807*s mod (2^31-1) = %u",
					     s, r, st, want);
				if (vh_nviol >= 8)
					break;
			}
		}
		vh_evaluations = n;
		VH_COUNT_N("states_checked", n);
		VH_COUNT_N("states_in_carry_case(fold reaches 2^31-1)", carry_cases);
		if (stride == 1)
			VH_COUNT_N("__distinct_exact", carry_cases);
		vh_exhaustive = stride == 1;
		if (vh_opt.proc == 0) {
			uint32_t s = 1;
			uint32_t a = rand31_r(&s), b = rand31_r(&s), c = rand31_r(&s);
			vh_sample("states [%" PRIu64 ",%" PRIu64 ") stride %" PRIu64 "; from seed 1: %u %u %u", lo, hi, stride, a, b, c);
		}
	} else {
		/* trajectory from 1 */
		uint64_t limit = vh_opt.thorough ? M : (1ull << 28);
		uint32_t s = 1;
		uint64_t steps = 0;
		vh_case_key("trajectory-from-1");
		vh_case_budget(1800);
		do {
			rand31_r(&s);
			steps++;
			if (s == 0 || s >= M) {
				vh_violation("trajectory-left-range", "", "after %" PRIu64 " steps from 1 the state is %u", steps, s);
				break;
			}
		} while (s != 1 && steps < limit);
		vh_evaluations = steps;
		VH_COUNT_N("trajectory_steps", steps);
		if (s == 1 && steps != M - 1)
			vh_violation("short-period", "", "orbit of 1 closed after %" PRIu64 " steps, not 2^31-2", steps);
		if (s == 1)
			VH_COUNT("full_period_observed");
		vh_sample("orbit of seed 1 followed for %" PRIu64 " steps; closed=%d", steps, s == 1);
	}
	return vh_finish();
}

/*
 * C16 - bitcnt/clz/ctz/ilog2 on all 2^32 arguments, const_pop/const_lssb on
 * structured and random 64-bit arguments, compile-time and run-time.
 *
 * Oracle: compiler builtins (x = 0 cases defined by the statement), themselves
 * cross-checked against a naive bit loop on a sample.  The compile-time table
 * (generated file constexpr_table.c) holds {c, const_pop(c), const_lssb(c)} as
 * static initialisers, which forces constant evaluation.
 */
#include "vh.h"

#include <librfn/bitops.h>
#include <librfn/constexpr.h>

struct ce_entry {
	uint64_t c;
	int pop;
	int lssb;
};
extern const struct ce_entry ce_table[];
extern const unsigned ce_table_len;

static int naive_pop64(uint64_t x)
{
	int n = 0;
	for (int i = 0; i < 64; i++)
		n += (x >> i) & 1;
	return n;
}
static int naive_ctz64(uint64_t x)
{
	if (!x)
		return -1;
	int n = 0;
	while (!((x >> n) & 1))
		n++;
	return n;
}
static int naive_clz32(uint32_t x)
{
	int n = 0;
	for (int i = 31; i >= 0 && !((x >> i) & 1); i--)
		n++;
	return n;
}

static inline int ref_pop(uint32_t x) { return __builtin_popcount(x); }
static inline int ref_clz(uint32_t x) { return x ? __builtin_clz(x) : 32; }
static inline int ref_ctz(uint32_t x) { return x ? __builtin_ctz(x) : 32; }

static uint64_t nontriv;

static void bad(const char *fn, uint64_t x, long got, long want)
{
	char key[96];
	snprintf(key, sizeof(key), "%s-wrong-value", fn);
	vh_violation(key, "", "%s(0x%" PRIx64 ") returned %ld, definition gives %ld", fn, x, got, want);
}

static inline void check32(uint32_t x)
{
	int r;
	if ((r = bitcnt(x)) != ref_pop(x))
		bad("bitcnt", x, r, ref_pop(x));
	if ((r = clz(x)) != ref_clz(x))
		bad("clz", x, r, ref_clz(x));
	if ((r = ctz(x)) != ref_ctz(x))
		bad("ctz", x, r, ref_ctz(x));
	if (x && (r = ilog2(x)) != 31 - ref_clz(x))
		bad("ilog2", x, r, 31 - ref_clz(x));
}

/* run-time evaluation of the macros: the argument is a volatile object, so
 * nothing can be folded */
static int rt_pop(uint64_t c)
{
	volatile uint64_t v = c;
	return const_pop(v);
}
static int rt_lssb(uint64_t c)
{
	volatile uint64_t v = c;
	int r = const_lssb(v);
	return r;
}

/* the argument as an unparenthesised expression of lower precedence than the operators the macros apply */
static int rt_pop_expr(uint64_t c)
{
	volatile uint64_t a = c & 0xffffffff00000000ull, b = c & 0x00000000ffffffffull;
	return const_pop(a | b);
}
static int rt_lssb_expr(uint64_t c)
{
	volatile uint64_t a = c, z = 0;
	int r = const_lssb(a ^ z);
	return r;
}

static void check_macro_rt(uint64_t c)
{
	int want_pop = __builtin_popcountll(c);
	int want_lssb = c ? __builtin_ctzll(c) : -1;
	int p = rt_pop(c), l = rt_lssb(c);
	if (rt_pop_expr(c) != want_pop)
		bad("const_pop(expression-argument)", c, rt_pop_expr(c), want_pop);
	if (rt_lssb_expr(c) != want_lssb)
		bad("const_lssb(expression-argument)", c, rt_lssb_expr(c), want_lssb);
	vh_evaluations++;
	if (p != want_pop)
		bad("const_pop(run-time)", c, p, want_pop);
	if ((c ? l : (l < 0 ? -1 : l)) != want_lssb) {
		/* for c == 0 the statement says -1; see note below */
		bad("const_lssb(run-time)", c, l, want_lssb);
	}
	if (c == 0 && l != -1)
		bad("const_lssb(run-time,zero)", c, l, -1);
	vh_distinct(vh_mix(0x16, c));
}

/* arguments of types narrower than 64 bits, or signed: "c" is then the value converted to 64 bits, as the macros'
 * own cast does; zero of every type has no set bit */
#define TYPED_RT(T, name)                                                                          \
	static void typed_##name(uint64_t raw)                                                     \
	{                                                                                          \
		volatile T v = (T)raw;                                                             \
		uint64_t c = (uint64_t)(T)raw;                                                     \
		int want_pop = __builtin_popcountll(c), want_lssb = c ? __builtin_ctzll(c) : -1;   \
		int p = const_pop(v), l = const_lssb(v);                                           \
		vh_evaluations++;                                                                  \
		if (p != want_pop)                                                                 \
			bad("const_pop(run-time," #T ")", c, p, want_pop);                         \
		if (l != want_lssb)                                                                \
			bad("const_lssb(run-time," #T ")", c, l, want_lssb);                       \
		VH_COUNT("macro_rt_typed_arguments");                                              \
		if (c == 0)                                                                        \
			VH_COUNT("macro_rt_typed_zero_arguments");                                 \
	}
TYPED_RT(uint8_t, u8)
TYPED_RT(uint16_t, u16)
TYPED_RT(uint32_t, u32)
TYPED_RT(unsigned int, uint)
TYPED_RT(unsigned long, ulong)
TYPED_RT(uint64_t, u64)
TYPED_RT(int8_t, s8)
TYPED_RT(int16_t, s16)
TYPED_RT(int32_t, s32)
TYPED_RT(int, sint)
TYPED_RT(long, slong)
TYPED_RT(int64_t, s64)
static void (*const typed_rt[])(uint64_t) = { typed_u8,  typed_u16, typed_u32, typed_uint, typed_ulong, typed_u64,
					      typed_s8,  typed_s16, typed_s32, typed_sint, typed_slong, typed_s64 };

/* the same as integer constant expressions (static initialisers) */
#define TC(e) { (uint64_t)(e), const_pop(e), const_lssb(e), #e }
static const struct {
	uint64_t c;
	int pop, lssb;
	const char *text;
} typed_consts[] = {
	TC(0), TC(0u), TC(0l), TC(0ul), TC(0ll), TC(0ull), TC(UINT32_C(0)), TC(UINT64_C(0)), TC((uint8_t)0), TC((uint16_t)0),
	TC((int8_t)0), TC((short)0), TC('\0'), TC(1u), TC(0x80000000u), TC(0xffffffffu), TC(1u << 31), TC(-1), TC(-2), TC(INT32_MIN),
	TC((int8_t)-128), TC((uint8_t)0x80), TC((short)-2), TC(-1l), TC(-1ll), TC(UINT64_C(1) << 63), TC(0x100000000ull),
	TC(0xffffffff00000000ull), TC((uint16_t)0x8000), TC(0x7fffffff), TC(0x10000u), TC(sizeof(char) - 1),
};

int main(int argc, char **argv)
{
	vh_init(argc, argv, "bitops");
	const char *mode = vh_opt.extra ? vh_opt.extra : "exh";

	if (!strcmp(mode, "exh")) {
		/* all 2^32 arguments, split in contiguous blocks */
		uint64_t per = (1ull << 32) / (uint64_t)vh_opt.nproc;
		uint64_t lo = per * (uint64_t)vh_opt.proc;
		uint64_t hi = vh_opt.proc == vh_opt.nproc - 1 ? (1ull << 32) : lo + per;
		char key[64];
		snprintf(key, sizeof(key), "exh:block=%d", vh_opt.proc);
		vh_case_key(key);
		vh_case_budget(1800);
		for (uint64_t x = lo; x < hi; x++) {
			check32((uint32_t)x);
			if (vh_nviol >= VH_MAX_VIOL)
				break;
		}
		vh_evaluations += (hi - lo) * 4;
		/* every argument is distinct; non-trivial = more than one bit set
		 * (the SWAR carries matter) - counted arithmetically: all but 33 */
		nontriv = (hi - lo);
		VH_COUNT_N("arguments_checked_per_function", hi - lo);
		VH_COUNT_N("__distinct_exact", nontriv > 64 ? nontriv - 64 : 0);
		vh_exhaustive = 1;
		if (vh_opt.proc == 0) {
			/* builtins against the naive loops */
			vh_rng_t r;
			vh_rng_seed(&r, vh_opt.seed, 16, 0);
			for (int i = 0; i < (1 << 20); i++) {
				uint64_t c = vh_next(&r) >> vh_below(&r, 64);
				uint32_t x = (uint32_t)c;
				if (__builtin_popcountll(c) != naive_pop64(c) ||
				    (c && __builtin_ctzll(c) != naive_ctz64(c)) || ref_clz(x) != naive_clz32(x))
					vh_violation("oracle-self-check", "", "builtin disagrees with naive loop on 0x%" PRIx64, c);
				VH_COUNT("builtin_vs_naive_crosschecks");
			}
			vh_sample("bitcnt/clz/ctz/ilog2 for every x in [0x%" PRIx64 ",0x%" PRIx64 ") e.g. bitcnt(0x80000001)=%d clz(1)=%d ctz(0)=%d ilog2(0xffffffff)=%d",
				  lo, hi, bitcnt(0x80000001u), clz(1), ctz(0), ilog2(0xffffffffu));
		}
	} else {
		/* sanitizer build: stratified sample of the functions + macros */
		vh_case_key("asan-sample");
		vh_case_budget(900);
		vh_rng_t r;
		vh_rng_seed(&r, vh_opt.seed, 16, 1 + vh_opt.proc);
		uint64_t n = vh_opt.thorough ? (1ull << 24) : (1ull << 21);
		for (uint64_t i = 0; i < n; i++) {
			uint32_t x = (uint32_t)(vh_next(&r) >> vh_below(&r, 33));
			if (i & 1)
				x = ~x;
			check32(x);
			vh_evaluations += 4;
		}
		for (int i = 0; i < 32; i++)
			for (int j = 0; j <= i; j++) {
				check32((1u << i) | (1u << j));
				check32(~((1u << i) | (1u << j)));
			}
		check32(0);
		/* macros, run time: structured patterns */
		if (vh_opt.proc == 0) {
			check_macro_rt(0);
			for (int i = 0; i < 64; i++)
				for (int j = 0; j <= i; j++) {
					check_macro_rt((1ull << i) | (1ull << j));
					VH_COUNT("macro_rt_one_and_two_bit_patterns");
				}
			for (int i = 0; i < 64; i++)
				for (int j = i; j < 64; j++) {
					uint64_t m = (j - i == 63) ? ~0ull : (((1ull << (j - i + 1)) - 1) << i);
					check_macro_rt(m);
					VH_COUNT("macro_rt_contiguous_masks");
				}
		}
		uint64_t nr = vh_opt.thorough ? 200000 : 4000;
		for (uint64_t i = 0; i < nr; i++) {
			uint64_t c = vh_next(&r) >> vh_below(&r, 64);
			if (vh_below(&r, 3) == 0)
				c <<= vh_below(&r, 64);
			check_macro_rt(c);
			VH_COUNT("macro_rt_random");
		}
		/* macros, typed arguments */
		static const uint64_t raws[] = { 0, 1, 0x80, 0xff, 0x100, 0x8000, 0xffff, 0x10000, 0x80000000ull, 0xffffffffull, 0x100000000ull,
						 0x8000000000000000ull, ~0ull, 0xffffffff00000000ull, 0x7fffffffull, 0xfffffffffffffffeull };
		for (unsigned t = 0; t < sizeof(typed_rt) / sizeof(typed_rt[0]); t++) {
			for (unsigned i = 0; i < sizeof(raws) / sizeof(raws[0]); i++)
				typed_rt[t](raws[i]);
			for (long long k = vh_opt.proc; k < 2000; k += vh_opt.nproc) {
				uint64_t c = vh_next(&r) << 32 ^ vh_next(&r);
				typed_rt[t](vh_below(&r, 4) ? c : c << vh_below(&r, 64));
			}
		}
		if (vh_opt.proc == 0)
			for (unsigned i = 0; i < sizeof(typed_consts) / sizeof(typed_consts[0]); i++) {
				uint64_t c = typed_consts[i].c;
				int want_pop = __builtin_popcountll(c), want_lssb = c ? __builtin_ctzll(c) : -1;
				vh_evaluations++;
				if (typed_consts[i].pop != want_pop) {
					char fn[96];
					snprintf(fn, sizeof(fn), "const_pop(compile-time,typed:%s)", typed_consts[i].text);
					bad(fn, c, typed_consts[i].pop, want_pop);
				}
				if (typed_consts[i].lssb != want_lssb) {
					char fn[96];
					snprintf(fn, sizeof(fn), "const_lssb(compile-time,typed:%s)", typed_consts[i].text);
					bad(fn, c, typed_consts[i].lssb, want_lssb);
				}
				VH_COUNT("macro_compile_time_typed_constants");
			}
		/* macros, compile time */
		if (vh_opt.proc == 0) {
			for (unsigned i = 0; i < ce_table_len; i++) {
				uint64_t c = ce_table[i].c;
				int want_pop = __builtin_popcountll(c);
				int want_lssb = c ? __builtin_ctzll(c) : -1;
				vh_evaluations++;
				if (ce_table[i].pop != want_pop)
					bad("const_pop(compile-time)", c, ce_table[i].pop, want_pop);
				if (ce_table[i].lssb != want_lssb)
					bad("const_lssb(compile-time)", c, ce_table[i].lssb, want_lssb);
				if (ce_table[i].pop != rt_pop(c) || ce_table[i].lssb != rt_lssb(c))
					bad("const-vs-runtime-differ", c, ce_table[i].pop, rt_pop(c));
				VH_COUNT("macro_compile_time_constants");
				if (i < 2)
					vh_sample("static initialiser {0x%" PRIx64 "ull, const_pop(..)=%d, const_lssb(..)=%d}", c,
						  ce_table[i].pop, ce_table[i].lssb);
			}
		}
	}
	return vh_finish();
}

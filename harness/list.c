/*
 * C09 - the linked list behaves as a sequence under every order of operations.
 *
 * Lock-step model: NL lists as arrays of node ids over a pool of NN nodes.
 * After every operation: full traversal (raw links and iterator API),
 * list_empty, list_peek, list_contains for every (list, node), node->next of
 * every node outside all lists, return values, iterator position.
 *
 * mode "exh":  every operation string of length L (from each starting shape of
 *              0..3 nodes) over a reduced alphabet (2 lists, 4 nodes).
 * mode "rand": random strings of 10..200 operations, 3 lists, 8 nodes.
 */
#include "vh.h"

#include <librfn/list.h>
#include <librfn/util.h>

#define NN 8
#define NL 3

typedef struct {
	list_node_t link;
	int key;
	int id;
} node_t;

static node_t *pool; /* heap, exactly sized */
static list_t *lists;
static int nn = NN, nl = NL;

/* model */
static int seq[NL][NN], len[NL];
static int where[NN]; /* list index or -1 */
static int it_list = -1, it_pos; /* active iterator (model): list, position 0..len */
static list_iterator_t it;

static vh_sb_t trace;
static bool failed;

static int cmp_scale = 1;
static int cmp_key(list_node_t *a, list_node_t *b)
{
	/* any negative / zero / positive value is a legal comparator result, not just -1/0/1 */
	return (containerof(a, node_t, link)->key - containerof(b, node_t, link)->key) * cmp_scale;
}

static void reset_all(void)
{
	free(pool);
	free(lists);
	pool = calloc((size_t)nn, sizeof(node_t));
	lists = calloc((size_t)nl, sizeof(list_t));
	for (int i = 0; i < nn; i++) {
		pool[i].id = i;
		pool[i].key = i & 1;
		where[i] = -1;
	}
	for (int l = 0; l < nl; l++)
		len[l] = 0;
	it_list = -1;
	vh_sb_reset(&trace);
	failed = false;
}

static void fail(const char *clause, const char *fmt, ...)
{
	char msg[600];
	va_list ap;
	va_start(ap, fmt);
	vsnprintf(msg, sizeof(msg), fmt, ap);
	va_end(ap);
	vh_violation(clause, vh_cur_replay, "%s | operations: %s", msg, trace.b);
	failed = true;
}

static int node_id(list_node_t *n)
{
	if (!n)
		return -1;
	node_t *p = containerof(n, node_t, link);
	if (p < pool || p >= pool + nn)
		return -2;
	return (int)(p - pool);
}

static void model_insert_at(int l, int pos, int n)
{
	for (int i = len[l]; i > pos; i--)
		seq[l][i] = seq[l][i - 1];
	seq[l][pos] = n;
	len[l]++;
	where[n] = l;
}
static void model_remove_at(int l, int pos)
{
	where[seq[l][pos]] = -1;
	for (int i = pos; i < len[l] - 1; i++)
		seq[l][i] = seq[l][i + 1];
	len[l]--;
}
static bool model_sorted(int l)
{
	for (int i = 1; i < len[l]; i++)
		if (pool[seq[l][i - 1]].key > pool[seq[l][i]].key)
			return false;
	return true;
}

static const char *opname_last = "";

static void check_state(void)
{
	if (failed)
		return;
	for (int l = 0; l < nl; l++) {
		/* raw traversal */
		list_node_t *n = list_peek(&lists[l]);
		int i = 0;
		for (; n && i <= nn; n = n->next, i++) {
			if (i >= len[l] || node_id(n) != seq[l][i])
				break;
		}
		if (n || i != len[l]) {
			char got[128] = "", want[128] = "";
			int k = 0;
			for (list_node_t *m = list_peek(&lists[l]); m && k < nn + 2; m = m->next, k++)
				snprintf(got + strlen(got), sizeof(got) - strlen(got), "%d ", node_id(m));
			for (k = 0; k < len[l]; k++)
				snprintf(want + strlen(want), sizeof(want) - strlen(want), "%d ", seq[l][k]);
			char clause[96];
			snprintf(clause, sizeof(clause), "traversal-differs-after:%s", opname_last);
			fail(clause, "list %d is [%s] but the model has [%s]", l, got, want);
			return;
		}
		if (list_empty(&lists[l]) != (len[l] == 0)) {
			fail("list_empty-wrong", "list %d: list_empty=%d, model length %d", l, list_empty(&lists[l]), len[l]);
			return;
		}
		/* iterator API traversal */
		list_iterator_t ti;
		i = 0;
		for (n = list_iterate(&lists[l], &ti); n && i <= nn; n = list_iterator_next(&ti), i++)
			if (i >= len[l] || node_id(n) != seq[l][i])
				break;
		if (n || i != len[l]) {
			fail("iterator-traversal-differs", "list %d: list_iterate/next stopped at index %d (node %d), model length %d",
			     l, i, node_id(n), len[l]);
			return;
		}
		/* one more next past the end stays NULL */
		if (list_iterator_next(&ti) != NULL) {
			fail("iterator-next-past-end", "list %d: list_iterator_next past the end returned a node", l);
			return;
		}
		for (int k = 0; k < nn; k++) {
			bool c = list_contains(&lists[l], &pool[k].link, NULL);
			if (c != (where[k] == l)) {
				fail("list_contains-wrong", "list_contains(list %d, node %d) = %d, model says node is in %d", l, k, c,
				     where[k]);
				return;
			}
		}
		VH_COUNT_N("list_contains_comparisons", nn);
	}
	for (int k = 0; k < nn; k++)
		if (where[k] < 0 && pool[k].link.next != NULL) {
			char clause[96];
			snprintf(clause, sizeof(clause), "dangling-next-after:%s", opname_last);
			fail(clause, "node %d is outside every list but its next pointer is not NULL (node %d)", k,
			     node_id(pool[k].link.next));
			return;
		}
	if (it_list >= 0) {
		list_node_t *cur = *(it.prevnext);
		int want = it_pos < len[it_list] ? seq[it_list][it_pos] : -1;
		if (node_id(cur) != want) {
			char clause[96];
			snprintf(clause, sizeof(clause), "iterator-position-after:%s", opname_last);
			fail(clause, "iterator on list %d should be at index %d (node %d) but is at node %d", it_list, it_pos, want,
			     node_id(cur));
		}
	}
	VH_COUNT("states_compared");
}

enum { OP_INSERT, OP_PUSH, OP_SORTED, OP_EXTRACT, OP_REMOVE, OP_CONTAINS_IT, OP_ITERATE, OP_IT_NEXT, OP_IT_INSERT,
       OP_IT_REMOVE, OP_NOPS };
static const char *const opnames[] = { "insert", "push", "insert_sorted", "extract", "remove", "contains+iter", "iterate",
				       "iter_next", "iter_insert", "iter_remove" };
static uint32_t flags; /* bit per interesting event, for the non-triviality rule */
#define F_REMOVED_LAST 1
#define F_REMOVED_ONLY 2
#define F_TAIL_INSERT_AFTER_REMOVAL 4
#define F_HEAD_INSERT_AFTER_REMOVAL 8
#define F_SORTED_DUP 16
#define F_ITER_INSERT_END 32
#define F_REUSED_NODE 64
#define F_ITER_PAST_END 128
static uint32_t removed_tail_pending; /* per-list bit: a last/only element was removed and no insert happened since */
static bool ever_in_list[NN];

/* returns false if the operation is not applicable in the current state */
static bool apply(int op, int l, int n, int key)
{
	if (failed)
		return false;
	list_t *L = &lists[l];
	opname_last = opnames[op];
	switch (op) {
	case OP_INSERT:
	case OP_PUSH:
	case OP_SORTED:
		if (where[n] >= 0)
			return false; /* scope: never insert a member */
		if (op == OP_SORTED) {
			if (!model_sorted(l))
				return false;
			pool[n].key = key;
		}
		if (ever_in_list[n])
			flags |= F_REUSED_NODE;
		ever_in_list[n] = true;
		if (it_list == l)
			it_list = -1; /* modified behind the iterator */
		vh_sb_add(&trace, "%s(L%d,n%d%s) ", opnames[op], l, n, op == OP_SORTED ? (key ? ",key1" : ",key0") : "");
		if (op == OP_INSERT) {
			list_insert(L, &pool[n].link);
			model_insert_at(l, len[l], n);
			if (removed_tail_pending & (1u << l))
				flags |= F_TAIL_INSERT_AFTER_REMOVAL;
		} else if (op == OP_PUSH) {
			list_push(L, &pool[n].link);
			model_insert_at(l, 0, n);
			if (removed_tail_pending & (1u << l))
				flags |= F_HEAD_INSERT_AFTER_REMOVAL;
		} else {
			int pos = 0;
			while (pos < len[l] && pool[seq[l][pos]].key <= key)
				pos++;
			if (pos > 0 && pool[seq[l][pos - 1]].key == key)
				flags |= F_SORTED_DUP;
			list_insert_sorted(L, &pool[n].link, cmp_key);
			model_insert_at(l, pos, n);
			if ((removed_tail_pending & (1u << l)) && pos == len[l] - 1)
				flags |= F_TAIL_INSERT_AFTER_REMOVAL;
		}
		removed_tail_pending &= ~(1u << l);
		break;
	case OP_EXTRACT: {
		if (it_list == l)
			it_list = -1;
		vh_sb_add(&trace, "extract(L%d) ", l);
		list_node_t *r = list_extract(L);
		int want = len[l] ? seq[l][0] : -1;
		if (node_id(r) != want) {
			fail("extract-return-value", "list_extract(list %d) returned node %d, model head is %d", l, node_id(r), want);
			return true;
		}
		if (len[l]) {
			if (len[l] == 1) {
				flags |= F_REMOVED_ONLY;
				removed_tail_pending |= 1u << l;
			}
			model_remove_at(l, 0);
		}
		break;
	}
	case OP_REMOVE: {
		if (it_list == l)
			it_list = -1;
		vh_sb_add(&trace, "remove(L%d,n%d) ", l, n);
		bool r = list_remove(L, &pool[n].link);
		bool want = where[n] == l;
		if (r != want) {
			fail("remove-return-value", "list_remove(list %d, node %d) returned %d, model says %d", l, n, r, want);
			return true;
		}
		if (want) {
			int pos = 0;
			while (seq[l][pos] != n)
				pos++;
			if (pos == len[l] - 1) {
				flags |= len[l] == 1 ? F_REMOVED_ONLY : F_REMOVED_LAST;
				removed_tail_pending |= 1u << l;
			}
			model_remove_at(l, pos);
		}
		break;
	}
	case OP_CONTAINS_IT: {
		vh_sb_add(&trace, "contains(L%d,n%d,&it) ", l, n);
		bool r = list_contains(L, &pool[n].link, &it);
		bool want = where[n] == l;
		if (r != want) {
			fail("list_contains-wrong", "list_contains(list %d, node %d, iter) = %d, model says %d", l, n, r, want);
			return true;
		}
		it_list = l;
		if (want) {
			it_pos = 0;
			while (seq[l][it_pos] != n)
				it_pos++;
		} else {
			it_pos = len[l];
			flags |= F_ITER_PAST_END;
		}
		break;
	}
	case OP_ITERATE: {
		vh_sb_add(&trace, "iterate(L%d) ", l);
		list_node_t *r = list_iterate(L, &it);
		int want = len[l] ? seq[l][0] : -1;
		it_list = l;
		it_pos = 0;
		if (node_id(r) != want) {
			fail("iterate-return-value", "list_iterate(list %d) returned node %d, model head %d", l, node_id(r), want);
			return true;
		}
		break;
	}
	case OP_IT_NEXT: {
		if (it_list < 0)
			return false;
		vh_sb_add(&trace, "iter_next ");
		list_node_t *r = list_iterator_next(&it);
		if (it_pos < len[it_list])
			it_pos++;
		else
			flags |= F_ITER_PAST_END;
		int want = it_pos < len[it_list] ? seq[it_list][it_pos] : -1;
		if (node_id(r) != want) {
			fail("iterator_next-return-value", "list_iterator_next returned node %d, model expects %d (list %d index %d)",
			     node_id(r), want, it_list, it_pos);
			return true;
		}
		break;
	}
	case OP_IT_INSERT:
		if (it_list < 0 || where[n] >= 0)
			return false;
		vh_sb_add(&trace, "iter_insert(n%d)@L%d[%d] ", n, it_list, it_pos);
		if (ever_in_list[n])
			flags |= F_REUSED_NODE;
		ever_in_list[n] = true;
		if (it_pos == len[it_list]) {
			flags |= F_ITER_INSERT_END;
			if (removed_tail_pending & (1u << it_list))
				flags |= F_TAIL_INSERT_AFTER_REMOVAL;
		}
		list_iterator_insert(&it, &pool[n].link);
		model_insert_at(it_list, it_pos, n);
		removed_tail_pending &= ~(1u << it_list);
		break;
	case OP_IT_REMOVE: {
		if (it_list < 0 || it_pos >= len[it_list])
			return false; /* removing past the end is an assert() in the library */
		vh_sb_add(&trace, "iter_remove@L%d[%d] ", it_list, it_pos);
		if (it_pos == len[it_list] - 1) {
			flags |= len[it_list] == 1 ? F_REMOVED_ONLY : F_REMOVED_LAST;
			removed_tail_pending |= 1u << it_list;
		}
		list_node_t *r = list_iterator_remove(&it);
		model_remove_at(it_list, it_pos);
		int want = it_pos < len[it_list] ? seq[it_list][it_pos] : -1;
		if (node_id(r) != want) {
			fail("iterator_remove-return-value", "list_iterator_remove returned node %d, model expects %d", node_id(r), want);
			return true;
		}
		break;
	}
	}
	vh_case_desc("%s", trace.b);
	check_state();
	return true;
}

static int first_free(void)
{
	for (int i = 0; i < nn; i++)
		if (where[i] < 0)
			return i;
	return -1;
}

/* ---------------------------------------------------------------- exhaustive */

/* reduced alphabet: 2 lists, 4 nodes */
typedef struct {
	int op, l, n, key;
} xop_t;
static xop_t alpha[64];
static int nalpha;

static void build_alpha(void)
{
	for (int l = 0; l < 2; l++) {
		alpha[nalpha++] = (xop_t){ OP_INSERT, l, -1, 0 };
		alpha[nalpha++] = (xop_t){ OP_PUSH, l, -1, 0 };
		alpha[nalpha++] = (xop_t){ OP_SORTED, l, -1, 0 };
		alpha[nalpha++] = (xop_t){ OP_SORTED, l, -1, 1 };
		alpha[nalpha++] = (xop_t){ OP_EXTRACT, l, 0, 0 };
		for (int n = 0; n < 4; n++)
			alpha[nalpha++] = (xop_t){ OP_REMOVE, l, n, 0 };
		alpha[nalpha++] = (xop_t){ OP_ITERATE, l, 0, 0 };
		alpha[nalpha++] = (xop_t){ OP_CONTAINS_IT, l, 3, 0 };
	}
	alpha[nalpha++] = (xop_t){ OP_IT_NEXT, 0, 0, 0 };
	alpha[nalpha++] = (xop_t){ OP_IT_INSERT, 0, -1, 0 };
	alpha[nalpha++] = (xop_t){ OP_IT_REMOVE, 0, 0, 0 };
}

static void exhaustive(void)
{
	int L = vh_opt.thorough ? 6 : 5;
	if (vh_opt.cases)
		L = (int)vh_opt.cases;
	nn = 4;
	nl = 2;
	build_alpha();
	uint64_t total = 1;
	for (int i = 0; i < L; i++)
		total *= (uint64_t)nalpha;
	uint64_t pruned = 0, run = 0;
	for (int shape = 0; shape <= 3; shape++) {
		for (uint64_t idx = (uint64_t)vh_opt.proc; idx < total; idx += (uint64_t)vh_opt.nproc) {
			uint64_t caseno = (uint64_t)shape * total + idx;
			if (vh_opt.only_case >= 0 && caseno != (uint64_t)vh_opt.only_case)
				continue;
			reset_all();
			flags = 0;
			removed_tail_pending = 0;
			memset(ever_in_list, 0, sizeof(ever_in_list));
			char key[64];
			snprintf(key, sizeof(key), "exh:case=%" PRIu64, caseno);
			vh_case_key(key);
			vh_case_replay("--extra exh --cases %d --only-case %" PRIu64, L, caseno);
			/* starting shape: sorted keys 0,0,1 so insert_sorted stays applicable */
			for (int s = 0; s < shape; s++) {
				pool[s].key = s == 2;
				apply(OP_INSERT, 0, s, 0);
			}
			uint64_t x = idx;
			bool ok = true;
			for (int i = 0; i < L && ok && !failed; i++) {
				xop_t o = alpha[x % (uint64_t)nalpha];
				x /= (uint64_t)nalpha;
				int n = o.n < 0 ? first_free() : o.n;
				if (o.n < 0 && n < 0)
					ok = false;
				else
					ok = apply(o.op, o.l, n, o.key);
			}
			if (!ok && !failed) {
				pruned++;
				continue;
			}
			run++;
			vh_evaluations++;
			if ((flags & (F_REMOVED_LAST | F_REMOVED_ONLY)) &&
			    (flags & (F_TAIL_INSERT_AFTER_REMOVAL | F_HEAD_INSERT_AFTER_REMOVAL)))
				VH_COUNT_N("__distinct_exact", 1);
			if (run % 400000 == 1 && vh_want_sample())
				vh_sample("exh shape=%d: %s", shape, trace.b);
			if (vh_nviol >= 6)
				goto out;
		}
	}
out:
	VH_COUNT_N("exhaustive_strings_executed", run);
	VH_COUNT_N("exhaustive_strings_pruned(inapplicable op)", pruned);
	vh_exhaustive = vh_nviol == 0;
	snprintf(vh_note, sizeof(vh_note),
		 "exhaustive over strings of length %d from 4 starting shapes, alphabet of %d operations (2 lists, 4 nodes)", L,
		 nalpha);
}

/* -------------------------------------------------------------------- random */

static void random_case(long long c)
{
	vh_rng_t r;
	vh_rng_seed(&r, vh_opt.seed, 9, (uint64_t)c);
	nn = NN;
	nl = NL;
	reset_all();
	flags = 0;
	removed_tail_pending = 0;
	memset(ever_in_list, 0, sizeof(ever_in_list));
	char key[64];
	snprintf(key, sizeof(key), "rand:case=%lld", c);
	vh_case_key(key);
	vh_case_replay("--extra rand --only-case %lld", c);
	int nops = 10 + (int)vh_below(&r, 191);
	cmp_scale = (int[]){ 1, 1, 7, 100000, 0x10000000 }[vh_below(&r, 5)];
	/* bias: some cases keep lists short (boundary shapes), some fill up */
	int bias = (int)vh_below(&r, 3);
	for (int i = 0; i < nops && !failed; i++) {
		int op = (int)vh_below(&r, OP_NOPS);
		int l = (int)vh_below(&r, NL);
		int n = (int)vh_below(&r, NN);
		if (bias == 0 && (op == OP_INSERT || op == OP_PUSH || op == OP_SORTED) && vh_below(&r, 2))
			op = vh_below(&r, 2) ? OP_EXTRACT : OP_REMOVE;
		if (bias == 2 && (op == OP_EXTRACT) && vh_below(&r, 2))
			op = OP_INSERT;
		if ((op == OP_INSERT || op == OP_PUSH || op == OP_SORTED || op == OP_IT_INSERT) && where[n] >= 0) {
			n = first_free();
			if (n < 0)
				continue;
		}
		if (op == OP_REMOVE && len[l] && vh_below(&r, 3)) /* mostly remove members */
			n = seq[l][vh_below(&r, (uint32_t)len[l])];
		if (op == OP_REMOVE && len[l] && vh_below(&r, 4) == 0)
			n = seq[l][len[l] - 1]; /* the last one */
		apply(op, l, n, (int)vh_below(&r, 4));
	}
	vh_evaluations++;
	VH_COUNT("random_strings");
	if ((flags & (F_REMOVED_LAST | F_REMOVED_ONLY)) &&
	    (flags & (F_TAIL_INSERT_AFTER_REMOVAL | F_HEAD_INSERT_AFTER_REMOVAL))) {
		uint64_t h = 9;
		for (int i = 0; i < trace.n; i++)
			h = vh_mix(h, (unsigned char)trace.b[i]);
		vh_distinct(vh_mix(h, (uint64_t)c));
		VH_COUNT("random_strings_nontrivial");
	}
	if (flags & F_SORTED_DUP)
		VH_COUNT("strings_with_sorted_insert_among_equal_keys");
	if (flags & F_ITER_INSERT_END)
		VH_COUNT("strings_with_iterator_insert_at_end");
	if (flags & F_REUSED_NODE)
		VH_COUNT("strings_reusing_a_removed_node");
	if (flags & F_ITER_PAST_END)
		VH_COUNT("strings_with_iterator_past_the_end");
	if (vh_want_sample() && nops < 30 && (flags & F_SORTED_DUP))
		vh_sample("rand: %s", trace.b);
}

int main(int argc, char **argv)
{
	vh_init(argc, argv, "list");
	const char *mode = vh_opt.extra ? vh_opt.extra : "rand";
	if (!strcmp(mode, "exh")) {
		exhaustive();
	} else {
		long long n = vh_opt.cases ? vh_opt.cases : (vh_opt.thorough ? 20000000 : 200000);
		for (long long c = vh_opt.proc; c < n; c += vh_opt.nproc) {
			if (vh_opt.only_case >= 0 && c != vh_opt.only_case)
				continue;
			random_case(c);
			if (vh_nviol >= 6)
				break;
		}
	}
	return vh_finish();
}

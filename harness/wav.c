/*
 * C13 / C14 - WAV header codec.
 *
 * mode "rt"   (C13): init + set_num_frames over (format, channels, rate, frames)
 *             tuples and dirty prior contents; validate; encode/decode round
 *             trip field by field; arithmetic relations of the size fields.
 * mode "dec"  (C13): decode-first: hand-built accepted byte strings (PCM, float
 *             + fact, extensible with/without the 22-byte extension, odd
 *             extension sizes); re-encoding reproduces the bytes.
 * mode "fuzz" (C14): random strings, valid headers mutated field by field with
 *             adversarial size fields, every truncation of accepted headers;
 *             return value against an independent 64-bit reference parser;
 *             validate/get_format/tostring on whatever structure resulted.
 *
 * All inputs live in exactly-sized heap blocks (ASan).
 */
#include "vh.h"

#include <errno.h>
#include <limits.h>
#include <librfn/wavheader.h>

static const char *fmtname(int f)
{
	return f == RF_WAVHEADER_S16LE ? "S16LE" : f == RF_WAVHEADER_S32LE ? "S32LE" : f == RF_WAVHEADER_FLOAT ? "FLOAT" : "?";
}

#define FIELDS(X)                                                                                                      \
	X(chunk_id) X(chunk_size) X(format) X(fmt_chunk_id) X(fmt_chunk_size) X(audio_format) X(num_channels)          \
	X(sample_rate) X(byte_rate) X(block_align) X(bits_per_sample) X(cb_size) X(valid_bits_per_sample)              \
	X(channel_mask) X(sub_format) X(fact_chunk_id) X(fact_chunk_size) X(sample_length) X(data_chunk_id)           \
	X(data_chunk_size)

/* field-by-field comparison (padding ignored); returns name of first differing field */
static const char *first_diff(const rf_wavheader_t *a, const rf_wavheader_t *b)
{
#define X(f)                                                                                                           \
	if (memcmp(&a->f, &b->f, sizeof(a->f)))                                                                        \
		return #f;
	FIELDS(X)
#undef X
	return NULL;
}

static void hexs(char *out, size_t outsz, const uint8_t *p, size_t n)
{
	size_t k = 0;
	for (size_t i = 0; i < n && k + 3 < outsz; i++)
		k += (size_t)snprintf(out + k, outsz - k, "%02x", p[i]);
	out[k] = 0;
}

/* ------------------------------------------------------------------ C13 rt */

static void rt_case(long long c)
{
	vh_rng_t r;
	vh_rng_seed(&r, vh_opt.seed, 13, (uint64_t)c);
	char key[64];
	snprintf(key, sizeof(key), "rt:case=%lld", c);
	vh_case_key(key);
	vh_case_replay("--extra %s --only-case %lld", vh_opt.extra, c);
	bool bigrate = strstr(vh_opt.extra, "bigrate") != NULL;

	int format = (int)(c % 3);
	int bytes = format == RF_WAVHEADER_S16LE ? 2 : 4;
	static const uint32_t chans[] = { 1, 2, 3, 6, 8, 255, 1000, 16383, 32767 };
	uint32_t ch = chans[vh_below(&r, 9)];
	if (vh_below(&r, 4) == 0)
		ch = 1 + vh_below(&r, 65535 / (uint32_t)bytes);
	if (ch * (uint32_t)bytes > 65535)
		ch = 65535 / (uint32_t)bytes;
	uint32_t ba = ch * (uint32_t)bytes;
	static const uint32_t rates[] = { 1, 8000, 11025, 44100, 48000, 96000, 192000, 384000 };
	uint64_t maxrate = (bigrate ? 0xffffffffull : 0x7fffffffull) / ba;
	uint64_t minrate = bigrate ? (0x80000000ull + ba - 1) / ba : 1;
	if (maxrate > INT_MAX)
		maxrate = INT_MAX;
	if (minrate > maxrate) { /* no rate gives a byte rate in the wanted window */
		VH_COUNT("tuples_skipped(no rate in window)");
		return;
	}
	uint32_t rate = rates[vh_below(&r, 8)];
	if (vh_below(&r, 3) == 0 || rate > maxrate || rate < minrate)
		rate = (uint32_t)(minrate + (vh_next(&r) % (maxrate - minrate + 1)));
	/* frames: the RIFF size (header bytes after the size field + data) must fit in 32 bits - exactly */
	uint64_t maxframes = (0xffffffffull - (format == RF_WAVHEADER_FLOAT ? 50 : 36)) / ba;
	uint32_t frames, frames_first;
	switch (vh_below(&r, 6)) {
	case 0: frames = 0; break;
	case 1: frames = 1; break;
	case 2: frames = 2; break;
	case 3: frames = 1000; break;
	case 4: frames = (uint32_t)(maxframes - vh_below(&r, 3)); break; /* the largest counts that fit */
	default: frames = (uint32_t)(vh_next(&r) % (maxframes + 1)); break;
	}
	if (frames > maxframes)
		frames = (uint32_t)maxframes;
	frames_first = (uint32_t)(vh_next(&r) % (maxframes + 1));
	bool twice = vh_below(&r, 2);

	/* prior contents */
	rf_wavheader_t *wh = malloc(sizeof(*wh));
	int prefill = (int)vh_below(&r, 5);
	switch (prefill) {
	case 0: memset(wh, 0, sizeof(*wh)); break;
	case 1: memset(wh, 0xff, sizeof(*wh)); break;
	case 2:
		for (size_t i = 0; i < sizeof(*wh); i++)
			((uint8_t *)wh)[i] = (uint8_t)vh_next(&r);
		break;
	case 3: /* a previously valid header of a different format */
		memset(wh, 0, sizeof(*wh));
		rf_wavheader_init(wh, 22050, 2, (format + 1 + (int)vh_below(&r, 2)) % 3);
		rf_wavheader_set_num_frames(wh, 12345);
		break;
	default: /* a decoded extensible header */
		memset(wh, 0, sizeof(*wh));
		rf_wavheader_init(wh, 48000, 6, RF_WAVHEADER_FLOAT);
		wh->fmt_chunk_size = 40;
		wh->cb_size = 22;
		wh->valid_bits_per_sample = 24;
		wh->channel_mask = 0x3f;
		memset(wh->sub_format, 0x5a, 16);
		break;
	}
	vh_case_desc("init(rate=%u, channels=%u, %s) then set_num_frames(%s%u) on a structure pre-filled with style %d", rate, ch,
		     fmtname(format), twice ? "other count first, then " : "", frames, prefill);

	rf_wavheader_init(wh, (int)rate, (int)ch, (rf_wavheader_format_t)format);
	if (twice)
		rf_wavheader_set_num_frames(wh, frames_first);
	rf_wavheader_set_num_frames(wh, frames);

	char clause[128];
	const char *pf = prefill == 0 ? "zeroed" : "dirty";
#define FAIL(cl, ...)                                                                                                  \
	do {                                                                                                           \
		snprintf(clause, sizeof(clause), "%s:%s:%s-struct", cl, fmtname(format), pf);                          \
		char msg_[400];                                                                                        \
		snprintf(msg_, sizeof(msg_), __VA_ARGS__);                                                             \
		vh_violation(clause, vh_cur_replay, "%s | %s", msg_, vh_cur_case);                                     \
		goto done;                                                                                             \
	} while (0)

	vh_evaluations++;
	VH_COUNT("tuples");
	if (rf_wavheader_validate(wh) != 0)
		FAIL("does-not-validate", "rf_wavheader_validate returned %d", rf_wavheader_validate(wh));
	if (rf_wavheader_get_format(wh) != (rf_wavheader_format_t)format)
		FAIL("get_format-differs", "rf_wavheader_get_format returned %d", rf_wavheader_get_format(wh));

	uint8_t *buf = malloc(128);
	memset(buf, 0xcc, 128);
	int len = rf_wavheader_encode(wh, buf, 128);
	if (len < RF_WAVHEADER_MIN_SIZE || len > 128) {
		free(buf);
		FAIL("encode-length", "rf_wavheader_encode returned %d", len);
	}
	/* exactly-sized copy for decoding */
	uint8_t *enc = malloc((size_t)len);
	memcpy(enc, buf, (size_t)len);
	free(buf);
	rf_wavheader_t *wh2 = malloc(sizeof(*wh2));
	memset(wh2, 0x77, sizeof(*wh2));
	int dl = rf_wavheader_decode(enc, (unsigned)len, wh2);
	const char *d;
	char hx[260];
	hexs(hx, sizeof(hx), enc, (size_t)len);
	if (dl != len) {
		free(enc);
		free(wh2);
		FAIL("decode-length-differs", "encode wrote %d bytes, decode of them returned %d; bytes %s", len, dl, hx);
	}
	if ((d = first_diff(wh, wh2))) {
		free(enc);
		free(wh2);
		FAIL("round-trip-differs", "decode(encode(h)) differs from h in field %s; %d bytes: %s", d, len, hx);
	}
	/* encoding into a buffer of exactly len bytes gives the same bytes */
	uint8_t *enc2 = malloc((size_t)len);
	int len2 = rf_wavheader_encode(wh, enc2, (unsigned)len);
	bool same = len2 == len && !memcmp(enc, enc2, (size_t)len);
	free(enc2);
	free(enc);
	free(wh2);
	if (!same)
		FAIL("encode-exact-buffer", "encoding into a %d-byte buffer returned %d / different bytes", len, len2);

	/* arithmetic from the statement */
	uint32_t data = frames * ba;
	if (wh->data_chunk_size != data)
		FAIL("data-size", "data_chunk_size=%u, frames*block_align=%u", wh->data_chunk_size, data);
	if (wh->block_align != ba)
		FAIL("block-align", "block_align=%u, channels*bytes=%u", wh->block_align, ba);
	if (wh->byte_rate != rate * ba)
		FAIL("byte-rate", "byte_rate=%u, rate*block_align=%u", wh->byte_rate, rate * ba);
	if (wh->bits_per_sample != 8 * bytes)
		FAIL("bits-per-sample", "bits_per_sample=%u", wh->bits_per_sample);
	if (wh->num_channels != ch || wh->sample_rate != rate)
		FAIL("channels-or-rate", "num_channels=%u sample_rate=%u", wh->num_channels, wh->sample_rate);
	if (wh->chunk_size != (uint32_t)len - 8 + data)
		FAIL("riff-size-vs-file-length", "chunk_size=%u but %d header bytes - 8 + %u data bytes = %u follow it",
		     wh->chunk_size, len, data, (uint32_t)len - 8 + data);
	{
		uint64_t sig = vh_mix(vh_mix(vh_mix(13, (uint64_t)format * 8 + (uint64_t)prefill), ((uint64_t)ch << 32) | rate), frames);
		if (format != RF_WAVHEADER_FLOAT || prefill || frames)
			vh_distinct(sig);
		if (prefill)
			VH_COUNT("tuples_on_dirty_struct");
		if (twice)
			VH_COUNT("tuples_with_frame_count_changed");
		if (vh_want_sample() && c % 7 == 3)
			vh_sample("%s -> %d-byte header, chunk_size=%u data=%u", vh_cur_case, len, wh->chunk_size, data);
	}
done:
	free(wh);
#undef FAIL
}

/* --------------------------------------------------------------- builders */

typedef struct {
	uint8_t b[4096];
	size_t n;
	/* offsets of interesting fields */
	size_t off_chunk_size, off_fmt_size, off_cb, off_fact_size, off_data_size;
	bool has_fact, has_cb;
} hdr_t;

static void put(hdr_t *h, const void *p, size_t n)
{
	memcpy(h->b + h->n, p, n);
	h->n += n;
}
static void put32(hdr_t *h, uint32_t v)
{
	uint8_t t[4] = { (uint8_t)v, (uint8_t)(v >> 8), (uint8_t)(v >> 16), (uint8_t)(v >> 24) };
	put(h, t, 4);
}
static void put16(hdr_t *h, uint32_t v)
{
	uint8_t t[2] = { (uint8_t)v, (uint8_t)(v >> 8) };
	put(h, t, 2);
}

/* kind: 0 PCM16 (fmt 16), 1 float+fact (fmt 18, cb 0), 2 extensible (fmt 40, cb 22),
 * 3 fmt>=18 with cb != 22 and k skipped bytes, 4 PCM with fmt size 17, 5 ext + fact */
static void build(hdr_t *h, int kind, vh_rng_t *r, bool random_skip_bytes)
{
	memset(h, 0, sizeof(*h));
	uint32_t fmt_size = kind == 0 ? 16 : kind == 1 ? 18 : kind == 2 || kind == 5 ? 40 : kind == 4 ? 17 :
			    kind == 6 ? 18 + vh_below(r, 60) : 18 + vh_below(r, 40);
	uint32_t cb = (kind == 2 || kind == 5 || kind == 6) ? 22 : kind == 1 ? 0 : vh_below(r, 60);
	if (kind == 3 && cb == 22)
		cb = 23;
	bool fact = kind == 1 || kind == 5 || (kind == 3 && vh_below(r, 2));
	uint32_t chs = 1 + vh_below(r, 8), rate = 8000 + vh_below(r, 90000), bytes = vh_below(r, 2) ? 2 : 4;
	uint32_t data = vh_below(r, 3) ? vh_below(r, 1u << 20) : (uint32_t)vh_next(r);
	put(h, "RIFF", 4);
	h->off_chunk_size = h->n;
	put32(h, 0);
	put(h, "WAVE", 4);
	put(h, "fmt ", 4);
	h->off_fmt_size = h->n;
	put32(h, fmt_size);
	put16(h, kind == 1 ? 3 : (kind == 2 || kind == 5 || kind == 6) ? 0xfffe : 1);
	put16(h, chs);
	put32(h, rate);
	/* the derived fields are whatever the file says: now and then zero (streaming writers leave them blank) or noise */
	uint32_t brate = rate * chs * bytes, balign = chs * bytes;
	if (vh_below(r, 8) == 0) {
		brate = vh_below(r, 2) ? 0 : (uint32_t)vh_next(r);
		VH_COUNT("headers_with_blank_or_odd_byte_rate");
	}
	if (vh_below(r, 8) == 0) {
		balign = vh_below(r, 2) ? 0 : (uint32_t)vh_next(r) & 0xffff;
		VH_COUNT("headers_with_blank_or_odd_block_align");
	}
	put32(h, brate);
	put16(h, balign);
	put16(h, bytes * 8);
	if (fmt_size >= 18) {
		h->has_cb = true;
		h->off_cb = h->n;
		put16(h, cb);
		if (cb == 22) {
			put16(h, bytes * 8 - vh_below(r, 2) * 4);
			put32(h, (1u << chs) - 1);
			/* the sub-format GUID: its first two bytes are a format tag of their own (PCM, float, "extensible" again,
			 * none, all ones, something else), the rest is the standard suffix or noise */
			static const uint16_t tags[] = { 1, 3, 0xfffe, 0, 0xffff, 0x0055 };
			static const uint8_t ks_suffix[14] = { 0x00, 0x00, 0x00, 0x00, 0x10, 0x00, 0x80, 0x00, 0x00, 0xaa, 0x00, 0x38, 0x9b, 0x71 };
			uint32_t tsel = vh_below(r, 8);
			uint16_t tag = tsel < 6 ? tags[tsel] : (uint16_t)vh_next(r);
			bool std_suffix = vh_below(r, 2);
			put16(h, tag);
			for (int i = 0; i < 14; i++) {
				uint8_t x = std_suffix ? ks_suffix[i] : (uint8_t)vh_next(r);
				put(h, &x, 1);
			}
			if (tag == 0xfffe)
				VH_COUNT("headers_whose_sub_format_tag_is_extensible_again");
		} else {
			for (uint32_t i = 0; i < fmt_size - 18; i++) {
				uint8_t x = random_skip_bytes ? (uint8_t)vh_next(r) : 0;
				put(h, &x, 1);
			}
		}
	}
	if (fact) {
		h->has_fact = true;
		put(h, "fact", 4);
		h->off_fact_size = h->n;
		put32(h, vh_below(r, 2) ? 4 : 12);
		put32(h, data / (chs * bytes)); /* (the true frame count, whatever block_align says) */
	}
	put(h, "data", 4);
	h->off_data_size = h->n;
	put32(h, data);
	uint32_t cs = (uint32_t)h->n - 8 + data;
	if (vh_below(r, 4) == 0)
		cs = 0xffffffffu - vh_below(r, 8);
	h->b[h->off_chunk_size] = (uint8_t)cs;
	h->b[h->off_chunk_size + 1] = (uint8_t)(cs >> 8);
	h->b[h->off_chunk_size + 2] = (uint8_t)(cs >> 16);
	h->b[h->off_chunk_size + 3] = (uint8_t)(cs >> 24);
}

/* ------------------------------------------------------ reference parser */

static uint32_t rd32(const uint8_t *p)
{
	return (uint32_t)p[0] | (uint32_t)p[1] << 8 | (uint32_t)p[2] << 16 | (uint32_t)p[3] << 24;
}
/* returns the number of bytes the header occupies (64-bit), or 0 if that
 * cannot be determined from the sz bytes present (=> incomplete) */
static uint64_t ref_needed(const uint8_t *p, uint64_t sz)
{
	uint64_t pos = 36; /* through bits_per_sample */
	if (sz < 36)
		return 0;
	uint32_t fmt_size = rd32(p + 16);
	if (fmt_size >= 18) {
		if (sz < pos + 2)
			return 0;
		uint32_t cb = (uint32_t)p[pos] | (uint32_t)p[pos + 1] << 8;
		pos += 2;
		if (cb == 22)
			pos += 22;
		else
			pos += (uint64_t)fmt_size - 18;
	}
	if (sz < pos + 4)
		return 0;
	if (!memcmp(p + pos, "fact", 4))
		pos += 4 + 8;
	else
		; /* it is the data id */
	pos += 4 + 4;
	return pos;
}

/* -------------------------------------------------------------- C13 dec */

static void dec_case(long long c)
{
	vh_rng_t r;
	vh_rng_seed(&r, vh_opt.seed, 113, (uint64_t)c);
	char key[64];
	snprintf(key, sizeof(key), "dec:case=%lld", c);
	vh_case_key(key);
	vh_case_replay("--extra dec --only-case %lld", c);
	static hdr_t h;
	int kind = (int)(c % 7);
	bool rnd_skip = vh_below(&r, 2);
	build(&h, kind, &r, rnd_skip);
	static const char *const kinds[] = { "PCM fmt=16", "float+fact fmt=18", "extensible fmt=40 cb=22",
					     "fmt>=18 with skipped extension bytes", "PCM fmt=17", "extensible+fact",
					     "cb=22 with fmt size other than 40" };
	uint8_t *in = malloc(h.n);
	memcpy(in, h.b, h.n);
	char hx[400];
	hexs(hx, sizeof(hx), in, h.n < 190 ? h.n : 190);
	vh_case_desc("decode-first, %s, %zu bytes: %s", kinds[kind], h.n, hx);
	rf_wavheader_t *wh = malloc(sizeof(*wh));
	int dl = rf_wavheader_decode(in, (unsigned)h.n, wh);
	vh_evaluations++;
	VH_COUNT("decode_first_strings");
	char clause[128];
	if (dl < 0) {
		/* our construction is meant to be acceptable; the statement only speaks about accepted strings */
		VH_COUNT("decode_first_rejected");
		goto done;
	}
	if ((size_t)dl != h.n) {
		snprintf(clause, sizeof(clause), "decode-first:length:%s", kinds[kind]);
		vh_violation(clause, vh_cur_replay, "decode returned %d for a %zu-byte header | %s", dl, h.n, vh_cur_case);
		goto done;
	}
	uint8_t *out = malloc((size_t)dl);
	memset(out, 0xcc, (size_t)dl);
	int el = rf_wavheader_encode(wh, out, (unsigned)dl);
	/* expected: input with ignored extension bytes zeroed */
	uint8_t *exp = malloc(h.n);
	memcpy(exp, in, h.n);
	if (h.has_cb && rd32(in + 16) >= 18 && ((uint32_t)in[h.off_cb] | (uint32_t)in[h.off_cb + 1] << 8) != 22)
		memset(exp + h.off_cb + 2, 0, rd32(in + 16) - 18);
	if (el != dl || memcmp(out, exp, (size_t)dl)) {
		size_t d = 0;
		while (el == dl && d < (size_t)dl && out[d] == exp[d])
			d++;
		snprintf(clause, sizeof(clause), "decode-first:re-encode-differs:%s", kinds[kind]);
		vh_violation(clause, vh_cur_replay, "re-encoding returned %d bytes (decoded %d), first difference at offset %zu | %s", el, dl,
			     d, vh_cur_case);
	} else {
		/* and decoding the re-encoded bytes gives the same structure again */
		rf_wavheader_t *wh2 = malloc(sizeof(*wh2));
		int dl2 = rf_wavheader_decode(out, (unsigned)dl, wh2);
		const char *df = dl2 == dl ? first_diff(wh, wh2) : "length";
		if (df) {
			snprintf(clause, sizeof(clause), "decode-first:second-decode-differs:%s", kinds[kind]);
			vh_violation(clause, vh_cur_replay, "decode(encode(decode(x))) differs in %s | %s", df, vh_cur_case);
		}
		free(wh2);
	}
	if (kind >= 2) {
		uint64_t sig = 113;
		for (size_t i = 0; i < h.n; i++)
			sig = vh_mix(sig, in[i]);
		vh_distinct(sig);
	}
	VH_COUNT("decode_first_accepted");
	if (vh_want_sample() && kind == 3 && h.n < 90)
		vh_sample("%s -> decode %d, re-encode %d", vh_cur_case, dl, el);
	free(exp);
	free(out);
done:
	free(wh);
	free(in);
}

/* -------------------------------------------------------------- C14 fuzz */

static void helpers(rf_wavheader_t *wh, const char *origin)
{
	char k[200];
	snprintf(k, sizeof(k), "helpers-on-structure-from:%s", origin);
	char save[200];
	snprintf(save, sizeof(save), "%s", vh_cur_key);
	vh_case_key(k);
	(void)rf_wavheader_validate(wh);
	(void)rf_wavheader_get_format(wh);
	char *s = rf_wavheader_tostring(wh);
	free(s);
	VH_COUNT("helper_triples_called");
	vh_case_key(save);
}

/* returns true if (bytes, sz) was accepted with a plausible length */
static bool decode_and_judge(const uint8_t *bytes, size_t sz, const char *what, int *ret)
{
	uint8_t *in = malloc(sz ? sz : 1);
	if (!sz) {
		free(in);
		in = malloc(0);
	}
	memcpy(in, bytes, sz);
	rf_wavheader_t *wh = malloc(sizeof(*wh));
	static int no_prefill = -1;
	if (no_prefill < 0)
		no_prefill = getenv("VH_NO_PREFILL") != NULL; /* under memcheck the structure stays uninitialised */
	if (!no_prefill)
		memset(wh, 0x99, sizeof(*wh));
	int r = rf_wavheader_decode(in, (unsigned)sz, wh);
	if (ret)
		*ret = r;
	VH_COUNT("decodes_judged");
	/* the decoder reads the supplied bytes: it does not write to them either */
	if (sz && memcmp(in, bytes, sz)) {
		size_t d = 0;
		while (d < sz && in[d] == bytes[d])
			d++;
		char hx0[300], k0[160];
		hexs(hx0, sizeof(hx0), bytes, sz < 140 ? sz : 140);
		snprintf(k0, sizeof(k0), "decode:input-modified:%s", what);
		vh_violation(k0, vh_cur_replay, "rf_wavheader_decode(%zu bytes) returned %d and changed input byte %zu from 0x%02x to 0x%02x | input %s", sz,
			     r, d, bytes[d], in[d], hx0);
	}
	uint64_t need = ref_needed(bytes, sz);
	bool complete = need && need <= sz;
	char hx[300];
	hexs(hx, sizeof(hx), bytes, sz < 140 ? sz : 140);
	bool accepted = false;
	if (r >= 0 && (uint64_t)r <= sz) {
		const char *cl = NULL;
		if (!complete)
			cl = "success-on-incomplete-header";
		else if ((uint64_t)r != need)
			cl = "length-not-exact";
		else if (r < RF_WAVHEADER_MIN_SIZE)
			cl = "length-below-minimum";
		if (cl) {
			char key[160];
			snprintf(key, sizeof(key), "decode:%s:%s", cl, what);
			vh_violation(key, vh_cur_replay,
				     "rf_wavheader_decode(%zu bytes) returned %d; reference parser: header %s, occupies %" PRIu64
				     " bytes | input %s",
				     sz, r, complete ? "complete" : "incomplete", need, hx);
		} else {
			accepted = true;
		}
	}
	/* r < 0: error, always acceptable. r > sz: claims incomplete */
	if (r > 0 && (uint64_t)r > sz && complete) {
		char key[160];
		snprintf(key, sizeof(key), "decode:incomplete-claimed-on-complete-header:%s", what);
		vh_violation(key, vh_cur_replay, "decode(%zu bytes) returned %d although the header is complete in %" PRIu64 " bytes | input %s",
			     sz, r, need, hx);
	}
	helpers(wh, r < 0 ? "failed-decode" : accepted ? "accepted-decode" : "incomplete-decode");
	free(wh);
	free(in);
	return accepted;
}

static void truncations(const uint8_t *bytes, int r, const char *what)
{
	for (int t = 0; t < r; t++) {
		uint8_t *in = malloc(t ? (size_t)t : 1);
		if (!t) {
			free(in);
			in = malloc(0);
		}
		memcpy(in, bytes, (size_t)t);
		rf_wavheader_t wh;
		int rr = rf_wavheader_decode(in, (unsigned)t, &wh);
		VH_COUNT("truncations_decoded");
		if (rr >= 0 && rr <= t) {
			char key[160], hx[300];
			hexs(hx, sizeof(hx), bytes, (size_t)(r < 140 ? r : 140));
			snprintf(key, sizeof(key), "decode:truncated-header-accepted:%s", what);
			vh_violation(key, vh_cur_replay, "header of %d bytes truncated to %d bytes decodes with return value %d | %s", r, t, rr, hx);
			free(in);
			return;
		}
		helpers(&wh, "truncated-decode");
		free(in);
	}
}

static const uint32_t evil[] = { 0,          1,          15,         16,         17,         18,         19,         39,
				 40,         41,         0x7fffffffu, 0x80000000u, 0x80000001u, 0xffffffffu, 0xfffffffeu,
				 0xfffffff0u, 0xffffffd0u, 0xffffffc0u, 0xffffff00u, 0x7ffffff0u, 0x80000010u, 100, 1000, 65536 };
#define NEVIL (sizeof(evil) / sizeof(evil[0]))

static void fuzz_case(long long c)
{
	vh_rng_t r;
	vh_rng_seed(&r, vh_opt.seed, 14, (uint64_t)c);
	char key[64];
	snprintf(key, sizeof(key), "fuzz:case=%lld", c);
	vh_case_key(key);
	vh_case_replay("--extra fuzz --only-case %lld", c);
	static hdr_t h;
	int style = (int)(c % 4);
	vh_evaluations++;
	if (style == 0) {
		/* random bytes, sometimes with the magic in place */
		size_t n = vh_below(&r, 129);
		for (size_t i = 0; i < n; i++)
			h.b[i] = (uint8_t)vh_next(&r);
		bool magic = vh_below(&r, 2);
		if (magic && n >= 12) {
			memcpy(h.b, "RIFF", 4);
			memcpy(h.b + 8, "WAVE", 4);
			if (n >= 20 && vh_below(&r, 2)) {
				uint32_t v = evil[vh_below(&r, NEVIL)];
				h.b[16] = (uint8_t)v;
				h.b[17] = (uint8_t)(v >> 8);
				h.b[18] = (uint8_t)(v >> 16);
				h.b[19] = (uint8_t)(v >> 24);
			}
		}
		vh_case_desc("random %zu bytes%s", n, magic ? " with RIFF/WAVE magic" : "");
		int ret;
		bool acc = decode_and_judge(h.b, n, "random-bytes", &ret);
		if (magic && n >= 12) {
			VH_COUNT("strings_passing_magic");
			uint64_t sig = 14;
			for (size_t i = 0; i < n; i++)
				sig = vh_mix(sig, h.b[i]);
			vh_distinct(sig);
		}
		if (acc)
			truncations(h.b, ret, "random-bytes");
	} else {
		int kind = (int)vh_below(&r, 7);
		build(&h, kind, &r, true);
		size_t n = h.n;
		const char *what = "valid-header";
		if (style >= 2) {
			/* mutate one size field (or two) */
			what = "mutated-size-field";
			int nm = 1 + (int)vh_below(&r, 2);
			for (int m = 0; m < nm; m++) {
				size_t offs[5];
				int no = 0;
				offs[no++] = h.off_chunk_size;
				offs[no++] = h.off_fmt_size;
				offs[no++] = h.off_data_size;
				if (h.has_fact)
					offs[no++] = h.off_fact_size;
				if (h.has_cb)
					offs[no++] = h.off_cb;
				size_t off = offs[vh_below(&r, (uint32_t)no)];
				uint32_t v = vh_below(&r, 4) ? evil[vh_below(&r, NEVIL)] : (uint32_t)vh_next(&r);
				if (off == h.off_cb && h.has_cb) {
					h.b[off] = (uint8_t)v;
					h.b[off + 1] = (uint8_t)(v >> 8);
				} else {
					h.b[off] = (uint8_t)v;
					h.b[off + 1] = (uint8_t)(v >> 8);
					h.b[off + 2] = (uint8_t)(v >> 16);
					h.b[off + 3] = (uint8_t)(v >> 24);
				}
			}
			/* supplied length: the built length, or padded/truncated */
			uint32_t x = vh_below(&r, 4);
			if (x == 0 && n < 4000) {
				size_t extra = vh_below(&r, 64);
				for (size_t i = 0; i < extra; i++)
					h.b[n + i] = (uint8_t)vh_next(&r);
				n += extra;
			} else if (x == 1) {
				n = vh_below(&r, (uint32_t)n + 1);
			}
		}
		if (style == 3 && vh_below(&r, 3) == 0) {
			what = "mutated-byte";
			h.b[vh_below(&r, (uint32_t)(n ? n : 1))] ^= (uint8_t)(1u << vh_below(&r, 8));
		}
		char hx[300];
		hexs(hx, sizeof(hx), h.b, n < 120 ? n : 120);
		vh_case_desc("%s (kind %d), %zu bytes supplied: %s", what, kind, n, hx);
		int ret;
		bool acc = decode_and_judge(h.b, n, what, &ret);
		VH_COUNT("strings_passing_magic");
		uint64_t sig = 1414;
		for (size_t i = 0; i < n && i < 200; i++)
			sig = vh_mix(sig, h.b[i]);
		vh_distinct(sig);
		if (acc) {
			VH_COUNT("accepted_headers");
			if (style == 1 || vh_below(&r, 4) == 0)
				truncations(h.b, ret, what);
		}
		if (vh_want_sample() && style == 2 && c % 11 == 2)
			vh_sample("%s -> decode returned %d", vh_cur_case, ret);
	}
}

int main(int argc, char **argv)
{
	vh_init(argc, argv, "wav");
	if (!vh_opt.extra)
		vh_opt.extra = "rt";
	const char *mode = vh_opt.extra;
	void (*fn)(long long);
	long long n = vh_opt.cases;
	if (!strncmp(mode, "rt", 2)) {
		fn = rt_case;
		if (!n)
			n = vh_opt.thorough ? 10000000 : 400000;
	} else if (!strcmp(mode, "dec")) {
		fn = dec_case;
		if (!n)
			n = vh_opt.thorough ? 10000000 : 200000;
	} else {
		fn = fuzz_case;
		if (!n)
			n = vh_opt.thorough ? 20000000 : 400000;
		/* the all-zero structure (what a caller has before any decode) */
		rf_wavheader_t z;
		memset(&z, 0, sizeof(z));
		vh_case_replay("--extra fuzz");
		vh_case_desc("helpers on an all-zero structure");
		if (vh_opt.proc == 0)
			helpers(&z, "zeroed-structure");
	}
	if (fn == fuzz_case && vh_opt.only_case < 0) {
		/* structures with every field at its extremes, reached through the decoder: a 44-byte PCM-shaped header
		 * whose fields take all combinations of boundary values; then the three helpers */
		static const uint32_t v32[] = { 0, 1, 0x7fffffffu, 0x80000000u, 0xc4653600u, 0xffffffffu, 999999999u, 1000000000u };
		static const uint32_t v16[] = { 0, 1, 2, 9999, 10000, 0x7fff, 0x8000, 0xffff };
		static const uint32_t fmts16[] = { 0, 1, 3, 0xfffe, 0xffff };
		static const uint32_t bits16[] = { 0, 8, 16, 32, 0xffff };
		uint64_t combo = 0;
		vh_case_replay("--extra fuzz");
		for (unsigned a = 0; a < 8; a++)
			for (unsigned b = 0; b < 8; b++)
				for (unsigned cc = 0; cc < 8; cc++)
					for (unsigned d = 0; d < 8; d++)
						for (unsigned e = 0; e < 5; e++)
							for (unsigned f = 0; f < 5; f++, combo++) {
								if ((combo % (uint64_t)vh_opt.nproc) != (uint64_t)vh_opt.proc)
									continue;
								static hdr_t h;
								memset(&h, 0, sizeof(h));
								put(&h, "RIFF", 4);
								put32(&h, 0xffffffffu);
								put(&h, "WAVE", 4);
								put(&h, "fmt ", 4);
								put32(&h, 16);
								put16(&h, fmts16[e]);
								put16(&h, v16[d]);   /* channels */
								put32(&h, v32[b]);   /* sample rate */
								put32(&h, v32[(a + b) % 8]); /* byte rate */
								put16(&h, v16[cc]);  /* block align */
								put16(&h, bits16[f]);
								put(&h, "data", 4);
								put32(&h, v32[a]);   /* data size */
								vh_case_desc("extreme fields: data=0x%x rate=0x%x align=%u channels=%u format=0x%x bits=%u", v32[a], v32[b],
									     v16[cc], v16[d], fmts16[e], bits16[f]);
								int ret;
								decode_and_judge(h.b, h.n, "extreme-fields", &ret);
								VH_COUNT("extreme_field_structures");
							}
	}
	for (long long c = vh_opt.proc; c < n; c += vh_opt.nproc) {
		if (vh_opt.only_case >= 0 && c != vh_opt.only_case)
			continue;
		fn(c);
		if (vh_nviol >= 10)
			break;
	}
	return vh_finish();
}

/*
 * C08 - driver for the generated protothread programs (lib/ptgen.py).
 * Every program is invoked until it exits or fails, twice (PT_INIT in
 * between); the return code and side effects of every invocation are logged
 * and compared with the trace predicted by the Python generator semantics.
 */
#include "vh.h"
#include "pt_driver.h"

extern const prog_t *const pt_sets[];
extern const unsigned *const pt_set_lens[];
extern const unsigned pt_nsets;

static int effects[4096], neffects;
void emit(int id)
{
	if (neffects < 4096)
		effects[neffects++] = id;
}
#define MAXCTX 64
static ctx_t *allctx[MAXCTX];
static int nctx;
ctx_t *child_ctx(ctx_t *x, int i)
{
	if (!x->cctx_[i]) {
		x->cctx_[i] = calloc(1, sizeof(ctx_t));
		for (int j = 0; j < 4; j++)
			x->cctx_[i]->v[j] = x->v[(j + i + 1) % 4];
		if (nctx < MAXCTX)
			allctx[nctx++] = x->cctx_[i];
	}
	return x->cctx_[i];
}

int main(int argc, char **argv)
{
	vh_init(argc, argv, "pt_driver");
	uint64_t idx = 0;
	for (unsigned s = 0; s < pt_nsets; s++)
		for (unsigned k = 0; k < *pt_set_lens[s]; k++, idx++) {
			if ((idx % (uint64_t)vh_opt.nproc) != (uint64_t)vh_opt.proc)
				continue;
			const prog_t *p = &pt_sets[s][k];
			if (vh_opt.only_case >= 0 && p->id != vh_opt.only_case)
				continue;
			char key[64];
			snprintf(key, sizeof(key), "program=%d", p->id);
			vh_case_key(key);
			vh_case_replay("--only-case %d", p->id);
			vh_case_desc("program %d:\n%s", p->id, p->source);
			ctx_t *top = calloc(1, sizeof(ctx_t));
			memcpy(top->v, p->init, sizeof(top->v));
			nctx = 0;
			static char got[8192];
			size_t n = 0;
			bool overflow = false;
			for (int run = 0; run < 2 && !overflow; run++) {
				pt_t pt;
				PT_INIT(&pt);
				for (int inv = 0;; inv++) {
					neffects = 0;
					pt_state_t r = p->fn(&pt, top);
					VH_COUNT("invocations");
					n += (size_t)snprintf(got + n, sizeof(got) - n, "%c:", r == PT_YIELDED ? 'Y' : r == PT_WAITING ? 'W' :
								     r == PT_EXITED ? 'E' : r == PT_FAILED ? 'F' : '?');
					for (int e = 0; e < neffects && n < sizeof(got) - 32; e++)
						n += (size_t)snprintf(got + n, sizeof(got) - n, "%s%d", e ? "," : "", effects[e]);
					n += (size_t)snprintf(got + n, sizeof(got) - n, ";");
					if (r >= PT_EXITED)
						break;
					if (inv > 500 || n > sizeof(got) - 64) {
						overflow = true;
						break;
					}
				}
				n += (size_t)snprintf(got + n, sizeof(got) - n, "|%s", run == 0 ? ";" : "");
			}
			vh_evaluations++;
			VH_COUNT("programs_run");
			if (overflow || strcmp(got, p->expected)) {
				/* first differing invocation */
				size_t d = 0;
				while (got[d] && got[d] == p->expected[d])
					d++;
				size_t from = d;
				while (from > 0 && got[from - 1] != ';')
					from--;
				int invno = 0;
				for (size_t i = 0; i < from; i++)
					if (got[i] == ';')
						invno++;
				char key2[96];
				const char *clause = overflow ? "never-exits" :
						     (got[from] != p->expected[from]) ? "wrong-return-code" : "wrong-side-effects";
				snprintf(key2, sizeof(key2), "trace-differs:%s", clause);
				vh_violation(key2, vh_cur_replay,
					     "program %d, invocation #%d: observed \"%.60s\", sequential semantics give \"%.60s\" (format code:effects; | separates the two runs)\n%s",
					     p->id, invno, got + from, p->expected + from, p->source);
			}
			if (p->flags) {
				vh_distinct(vh_mix(0x08, (uint64_t)p->id));
				VH_COUNT("programs_nontrivial");
				if (p->flags & 1)
					VH_COUNT("programs_with_blocking_point_in_loop_in_conditional");
				if (p->flags & 2)
					VH_COUNT("programs_with_spawn_in_loop");
				if (p->flags & 4)
					VH_COUNT("programs_with_failing_child");
				if (p->flags & 8)
					VH_COUNT("programs_with_unbraced_macro_as_loop_or_if_body");
				if (p->flags & 16)
					VH_COUNT("programs_with_unbraced_spawn_as_loop_or_if_body");
			}
			if (vh_want_sample() && (p->flags & 3) == 3 && strlen(p->source) < 900)
				vh_sample("program %d: %s  => %s", p->id, p->source, p->expected);
			for (int i = 0; i < nctx; i++)
				free(allctx[i]);
			free(top);
			if (vh_nviol >= 8)
				return vh_finish();
		}
	return vh_finish();
}

/*
 * C08 - driver for the generated protothread programs (lib/ptgen.py).
 * Every program is invoked until it exits or fails, twice (PT_INIT in
 * between); the return code and side effects of every invocation are logged
 * and compared with the trace predicted by the Python generator semantics.
 */
#include "vh.h"
#include "pt_driver.h"

extern const prog_t *const pt_sets[];
extern const unsigned *const pt_set_lens[];
extern const unsigned pt_nsets;

int pt_last_res;
static int effects[4096], neffects;
void emit(int id)
{
	if (neffects < 4096)
		effects[neffects++] = id;
}
#define MAXCTX 64
static ctx_t *allctx[MAXCTX];
static int nctx;
ctx_t *child_ctx(ctx_t *x, int i)
{
	if (!x->cctx_[i]) {
		x->cctx_[i] = calloc(1, sizeof(ctx_t));
		for (int j = 0; j < 4; j++)
			x->cctx_[i]->v[j] = x->v[(j + i + 1) % 4];
		if (nctx < MAXCTX)
			allctx[nctx++] = x->cctx_[i];
	}
	return x->cctx_[i];
}

/* ---- children that block very many times (the generated programs keep their loops short) ----
 * PT_CALL runs its child to completion inside one invocation of the parent however often the child blocks;
 * PT_SPAWN relays every one of those blocks, unchanged, and continues the parent afterwards. */
static long lc_n, lc_i, lc_blocks_seen;
static int lc_kind; /* 0 yields, 1 waits, 2 alternates */
static pt_state_t lc_child(pt_t *pt)
{
	PT_BEGIN(pt);
	for (lc_i = 0; lc_i < lc_n; lc_i++) {
		if (lc_kind == 0 || (lc_kind == 2 && (lc_i & 1)))
			PT_YIELD();
		else
			PT_WAIT();
	}
	emit(7);
	PT_END();
}
static pt_t lc_cpt;
static pt_state_t lc_caller(pt_t *pt)
{
	PT_BEGIN(pt);
	emit(1);
	PT_CALL(&lc_cpt, lc_child(&lc_cpt));
	emit(2);
	PT_END();
}
static pt_state_t lc_spawner(pt_t *pt)
{
	PT_BEGIN(pt);
	emit(1);
	PT_SPAWN(&lc_cpt, lc_child(&lc_cpt));
	emit(PT_CHILD_OK() ? 2 : 3);
	PT_END();
}
static void long_children(void)
{
	static const long ns[] = { 0, 1, 2, 3, 7, 8, 15, 16, 17, 31, 32, 33, 63, 64, 65, 99, 100, 101, 127, 128, 129, 254, 255, 256, 257,
				   511, 512, 513, 999, 1000, 1001, 1023, 1024, 1025, 4095, 4096, 4097, 9999, 10000, 10001, 32767, 32768, 32769,
				   65534, 65535, 65536, 65537, 99999, 100000, 100001, 131071, 131072, 300000 };
	for (unsigned a = 0; a < sizeof(ns) / sizeof(ns[0]); a++)
		for (lc_kind = 0; lc_kind < 3; lc_kind++) {
			lc_n = ns[a];
			char key[64];
			snprintf(key, sizeof(key), "long-child:n=%ld,kind=%d", lc_n, lc_kind);
			vh_case_key(key);
			vh_case_replay("--extra long");
			vh_case_desc("child that blocks %ld times (%s) under PT_CALL and under PT_SPAWN", lc_n,
				     lc_kind == 0 ? "yields" : lc_kind == 1 ? "waits" : "alternately");
			/* PT_CALL */
			pt_t pt;
			PT_INIT(&pt);
			neffects = 0;
			pt_state_t r = lc_caller(&pt);
			vh_evaluations++;
			if (r != PT_EXITED || neffects != 3 || effects[0] != 1 || effects[1] != 7 || effects[2] != 2 || lc_i != lc_n)
				vh_violation("long-child:PT_CALL-did-not-run-the-child-to-completion", vh_cur_replay,
					     "a child that blocks %ld times: the calling thread returned %d after %d effects, the child had done %ld of its %ld rounds",
					     lc_n, (int)r, neffects, lc_i, lc_n);
			/* PT_SPAWN */
			PT_INIT(&pt);
			neffects = 0;
			lc_blocks_seen = 0;
			bool ok = true;
			for (long inv = 0; ok; inv++) {
				r = lc_spawner(&pt);
				if (r == PT_EXITED || r == PT_FAILED)
					break;
				pt_state_t want = (lc_kind == 0 || (lc_kind == 2 && (inv & 1))) ? PT_YIELDED : PT_WAITING;
				if (r != want || inv >= lc_n) {
					vh_violation("long-child:PT_SPAWN-relay-wrong", vh_cur_replay,
						     "a child that blocks %ld times: invocation %ld of the spawning thread returned %d, expected %d", lc_n, inv,
						     (int)r, inv >= lc_n ? (int)PT_EXITED : (int)want);
					ok = false;
				}
				lc_blocks_seen++;
			}
			vh_evaluations++;
			if (ok && (r != PT_EXITED || lc_blocks_seen != lc_n || neffects != 3 || effects[1] != 7 || effects[2] != 2))
				vh_violation("long-child:PT_SPAWN-did-not-finish", vh_cur_replay,
					     "a child that blocks %ld times: %ld blocks relayed, final code %d, %d effects", lc_n, lc_blocks_seen, (int)r, neffects);
			VH_COUNT("long_children_run");
			VH_COUNT_N("long_children_blocks_relayed", (uint64_t)lc_blocks_seen);
			vh_distinct(vh_mix(0x0808, (uint64_t)lc_n * 4 + (uint64_t)lc_kind));
		}
}

int main(int argc, char **argv)
{
	vh_init(argc, argv, "pt_driver");
	if (vh_opt.proc == 0 && (vh_opt.only_case < 0 || (vh_opt.extra && !strcmp(vh_opt.extra, "long"))))
		long_children();
	if (vh_opt.extra && !strcmp(vh_opt.extra, "long"))
		return vh_finish();
	uint64_t idx = 0;
	for (unsigned s = 0; s < pt_nsets; s++)
		for (unsigned k = 0; k < *pt_set_lens[s]; k++, idx++) {
			if ((idx % (uint64_t)vh_opt.nproc) != (uint64_t)vh_opt.proc)
				continue;
			const prog_t *p = &pt_sets[s][k];
			if (vh_opt.only_case >= 0 && p->id != vh_opt.only_case)
				continue;
			char key[64];
			snprintf(key, sizeof(key), "program=%d", p->id);
			vh_case_key(key);
			vh_case_replay("--only-case %d", p->id);
			vh_case_desc("program %d:\n%s", p->id, p->source);
			ctx_t *top = calloc(1, sizeof(ctx_t));
			memcpy(top->v, p->init, sizeof(top->v));
			nctx = 0;
			static char got[8192];
			size_t n = 0;
			bool overflow = false;
			for (int run = 0; run < 2 && !overflow; run++) {
				pt_t pt;
				PT_INIT(&pt);
				for (int inv = 0;; inv++) {
					neffects = 0;
					pt_state_t r = p->fn(&pt, top);
					VH_COUNT("invocations");
					n += (size_t)snprintf(got + n, sizeof(got) - n, "%c:", r == PT_YIELDED ? 'Y' : r == PT_WAITING ? 'W' :
								     r == PT_EXITED ? 'E' : r == PT_FAILED ? 'F' : '?');
					for (int e = 0; e < neffects && n < sizeof(got) - 32; e++)
						n += (size_t)snprintf(got + n, sizeof(got) - n, "%s%d", e ? "," : "", effects[e]);
					n += (size_t)snprintf(got + n, sizeof(got) - n, ";");
					if (r >= PT_EXITED)
						break;
					if (inv > 500 || n > sizeof(got) - 64) {
						overflow = true;
						break;
					}
				}
				n += (size_t)snprintf(got + n, sizeof(got) - n, "|%s", run == 0 ? ";" : "");
			}
			vh_evaluations++;
			VH_COUNT("programs_run");
			if (overflow || strcmp(got, p->expected)) {
				/* first differing invocation */
				size_t d = 0;
				while (got[d] && got[d] == p->expected[d])
					d++;
				size_t from = d;
				while (from > 0 && got[from - 1] != ';')
					from--;
				int invno = 0;
				for (size_t i = 0; i < from; i++)
					if (got[i] == ';')
						invno++;
				char key2[96];
				const char *clause = overflow ? "never-exits" :
						     (got[from] != p->expected[from]) ? "wrong-return-code" : "wrong-side-effects";
				snprintf(key2, sizeof(key2), "trace-differs:%s", clause);
				vh_violation(key2, vh_cur_replay,
					     "program %d, invocation #%d: observed \"%.60s\", sequential semantics give \"%.60s\" (format code:effects; | separates the two runs)\n%s",
					     p->id, invno, got + from, p->expected + from, p->source);
			}
			if (p->flags) {
				vh_distinct(vh_mix(0x08, (uint64_t)p->id));
				VH_COUNT("programs_nontrivial");
				if (p->flags & 1)
					VH_COUNT("programs_with_blocking_point_in_loop_in_conditional");
				if (p->flags & 2)
					VH_COUNT("programs_with_spawn_in_loop");
				if (p->flags & 4)
					VH_COUNT("programs_with_failing_child");
				if (p->flags & 8)
					VH_COUNT("programs_with_unbraced_macro_as_loop_or_if_body");
				if (p->flags & 16)
					VH_COUNT("programs_with_unbraced_spawn_as_loop_or_if_body");
			}
			if (vh_want_sample() && (p->flags & 3) == 3 && strlen(p->source) < 900)
				vh_sample("program %d: %s  => %s", p->id, p->source, p->expected);
			for (int i = 0; i < nctx; i++)
				free(allctx[i]);
			free(top);
			if (vh_nviol >= 8)
				return vh_finish();
		}
	return vh_finish();
}

/*
 * vh.h - common harness runtime for the librfn monitors.
 *
 * Header only; every harness is one translation unit that includes this file.
 * Provides: option parsing, a replayable PRNG keyed by (seed, stream, case),
 * named counters, a set of distinct case signatures, sample/violation
 * recording, fatal-signal attribution to the current case, and the JSON result
 * file the python driver merges into evidence.
 *
 * Nothing in here is instrumented by -fsanitize=thread in E2 builds (harness
 * objects are compiled without it), so monitors never create schedule points.
 */
#ifndef VH_H_
#define VH_H_

#include <inttypes.h>
#include <signal.h>
#include <stdarg.h>
#include <stdbool.h>
#include <stdint.h>
#include <stdio.h>
#include <stdlib.h>
#include <string.h>
#include <unistd.h>

/* ------------------------------------------------------------------ PRNG */

typedef struct {
	uint64_t s[4];
} vh_rng_t;

static inline uint64_t vh_splitmix(uint64_t *x)
{
	uint64_t z = (*x += 0x9e3779b97f4a7c15ull);
	z = (z ^ (z >> 30)) * 0xbf58476d1ce4e5b9ull;
	z = (z ^ (z >> 27)) * 0x94d049bb133111ebull;
	return z ^ (z >> 31);
}

static inline void vh_rng_seed(vh_rng_t *r, uint64_t seed, uint64_t stream,
			       uint64_t caseno)
{
	uint64_t x = seed * 0x2545f4914f6cdd1dull + stream * 0x9e3779b97f4a7c15ull +
		     caseno * 0xd1342543de82ef95ull + 0x1234567;
	for (int i = 0; i < 4; i++)
		r->s[i] = vh_splitmix(&x);
}

static inline uint64_t vh_rotl(uint64_t x, int k)
{
	return (x << k) | (x >> (64 - k));
}

static inline uint64_t vh_next(vh_rng_t *r)
{
	uint64_t *s = r->s;
	uint64_t result = vh_rotl(s[1] * 5, 7) * 9;
	uint64_t t = s[1] << 17;
	s[2] ^= s[0];
	s[3] ^= s[1];
	s[1] ^= s[2];
	s[0] ^= s[3];
	s[2] ^= t;
	s[3] = vh_rotl(s[3], 45);
	return result;
}

/* uniform in [0, n) ; n > 0 */
static inline uint32_t vh_below(vh_rng_t *r, uint32_t n)
{
	return (uint32_t)(((vh_next(r) >> 32) * (uint64_t)n) >> 32);
}

static inline bool vh_chance(vh_rng_t *r, uint32_t num, uint32_t den)
{
	return vh_below(r, den) < num;
}

/* FNV-1a style mixing for signatures */
static inline uint64_t vh_mix(uint64_t h, uint64_t v)
{
	h ^= v + 0x9e3779b97f4a7c15ull + (h << 6) + (h >> 2);
	h *= 0x100000001b3ull;
	return h ^ (h >> 29);
}

/* --------------------------------------------------------------- options */

static struct {
	uint64_t seed;
	int thorough;
	int proc, nproc;
	const char *out;
	const char *stage;
	long long only_case; /* -1: all */
	long long cases;     /* 0: harness default */
	const char *extra;   /* free-form stage argument */
	int verbose;
} vh_opt = { 1, 0, 0, 1, NULL, "?", -1, 0, NULL, 0 };

/* -------------------------------------------------------------- counters */

#define VH_MAX_STATS 96
static struct {
	const char *name;
	uint64_t v;
	int is_max;
} vh_stats[VH_MAX_STATS];
static int vh_nstats;

static uint64_t *vh_stat_ptr(const char *name, int is_max)
{
	for (int i = 0; i < vh_nstats; i++)
		if (0 == strcmp(vh_stats[i].name, name))
			return &vh_stats[i].v;
	if (vh_nstats >= VH_MAX_STATS) {
		fprintf(stderr, "vh: too many stats\n");
		exit(2);
	}
	vh_stats[vh_nstats].name = name;
	vh_stats[vh_nstats].is_max = is_max;
	return &vh_stats[vh_nstats++].v;
}

#define VH_COUNT_N(name, n)                                                    \
	do {                                                                   \
		static uint64_t *vh_p_;                                        \
		if (!vh_p_)                                                    \
			vh_p_ = vh_stat_ptr(name, 0);                          \
		*vh_p_ += (n);                                                 \
	} while (0)
#define VH_COUNT(name) VH_COUNT_N(name, 1)
#define VH_MAX(name, val)                                                      \
	do {                                                                   \
		static uint64_t *vh_p_;                                        \
		if (!vh_p_)                                                    \
			vh_p_ = vh_stat_ptr(name, 1);                          \
		if ((uint64_t)(val) > *vh_p_)                                  \
			*vh_p_ = (uint64_t)(val);                              \
	} while (0)

static uint64_t vh_evaluations;

/* ------------------------------------------------- distinct signature set */

/* Open addressing set of 64-bit signatures; capped, so the reported number
 * is a lower bound once the cap is hit (the driver says so). */
#define VH_SET_BITS 21
#define VH_SET_SIZE (1u << VH_SET_BITS)
#define VH_SET_CAP (VH_SET_SIZE / 2)
static uint64_t *vh_set;
static uint32_t vh_set_n;
static int vh_set_capped;

static void vh_distinct(uint64_t sig)
{
	if (!vh_set)
		vh_set = calloc(VH_SET_SIZE, sizeof(uint64_t));
	if (sig == 0)
		sig = 1;
	uint32_t i = (uint32_t)(sig * 0x9e3779b97f4a7c15ull >> (64 - VH_SET_BITS));
	while (vh_set[i]) {
		if (vh_set[i] == sig)
			return;
		i = (i + 1) & (VH_SET_SIZE - 1);
	}
	if (vh_set_n >= VH_SET_CAP) {
		vh_set_capped = 1;
		return;
	}
	vh_set[i] = sig;
	vh_set_n++;
}

/* A second, independent set for things like distinct schedules/states */
#define VH_SET2_BITS 21
#define VH_SET2_SIZE (1u << VH_SET2_BITS)
static uint64_t *vh_set2;
static uint32_t vh_set2_n;
static void vh_distinct2(uint64_t sig)
{
	if (!vh_set2)
		vh_set2 = calloc(VH_SET2_SIZE, sizeof(uint64_t));
	if (sig == 0)
		sig = 1;
	uint32_t i = (uint32_t)(sig * 0x9e3779b97f4a7c15ull >> (64 - VH_SET2_BITS));
	while (vh_set2[i]) {
		if (vh_set2[i] == sig)
			return;
		i = (i + 1) & (VH_SET2_SIZE - 1);
	}
	if (vh_set2_n >= VH_SET2_SIZE / 2)
		return;
	vh_set2[i] = sig;
	vh_set2_n++;
}

/* ------------------------------------------------ samples and violations */

#define VH_TEXT 2048
#define VH_MAX_SAMPLES 5
#define VH_MAX_VIOL 24
static char vh_samples[VH_MAX_SAMPLES][VH_TEXT];
static int vh_nsamples;

static struct {
	char key[256];
	char detail[VH_TEXT];
	char replay[256];
} vh_viol[VH_MAX_VIOL];
static int vh_nviol;
static uint64_t vh_viol_total;

/* description of the case now executing; used by the fatal-signal path */
static char vh_cur_case[VH_TEXT];
static char vh_cur_key[200];
static char vh_cur_replay[256];

static void vh_sample(const char *fmt, ...)
{
	if (vh_nsamples >= VH_MAX_SAMPLES)
		return;
	va_list ap;
	va_start(ap, fmt);
	vsnprintf(vh_samples[vh_nsamples++], VH_TEXT, fmt, ap);
	va_end(ap);
}
static inline bool vh_want_sample(void)
{
	return vh_nsamples < VH_MAX_SAMPLES;
}

/* key identifies the witness (stable, canonical); detail is free text;
 * replay holds the harness arguments that re-run exactly this case */
static void vh_violation(const char *key, const char *replay, const char *fmt, ...)
{
	vh_viol_total++;
	for (int i = 0; i < vh_nviol; i++)
		if (0 == strcmp(vh_viol[i].key, key))
			return;
	if (vh_nviol >= VH_MAX_VIOL)
		return;
	snprintf(vh_viol[vh_nviol].key, sizeof(vh_viol[0].key), "%s", key);
	snprintf(vh_viol[vh_nviol].replay, sizeof(vh_viol[0].replay), "%s",
		 replay ? replay : "");
	va_list ap;
	va_start(ap, fmt);
	vsnprintf(vh_viol[vh_nviol].detail, VH_TEXT, fmt, ap);
	va_end(ap);
	if (vh_opt.verbose)
		fprintf(stderr, "violation %s: %s\n", key, vh_viol[vh_nviol].detail);
	vh_nviol++;
}

static void vh_json_str(FILE *f, const char *s)
{
	fputc('"', f);
	for (; *s; s++) {
		unsigned char c = (unsigned char)*s;
		if (c == '"' || c == '\\')
			fprintf(f, "\\%c", c);
		else if (c == '\n')
			fputs("\\n", f);
		else if (c == '\t')
			fputs("\\t", f);
		else if (c < 0x20 || c >= 0x7f)
			fprintf(f, "\\u%04x", c);
		else
			fputc(c, f);
	}
	fputc('"', f);
}

static int vh_exhaustive;
static char vh_note[512];

static void vh_write_result(int crashed)
{
	if (!vh_opt.out)
		return;
	FILE *f = fopen(vh_opt.out, "w");
	if (!f)
		return;
	fprintf(f, "{\"stage\":");
	vh_json_str(f, vh_opt.stage);
	fprintf(f, ",\"proc\":%d,\"crashed\":%d,\"evaluations\":%" PRIu64
		   ",\"distinct_capped\":%d,\"distinct2\":%u,\"exhaustive\":%s,\"note\":",
		vh_opt.proc, crashed, vh_evaluations, vh_set_capped, vh_set2_n,
		vh_exhaustive ? "true" : "false");
	vh_json_str(f, vh_note);
	fprintf(f, ",\"stats\":{");
	for (int i = 0; i < vh_nstats; i++) {
		if (i)
			fputc(',', f);
		vh_json_str(f, vh_stats[i].name);
		fprintf(f, ":[%" PRIu64 ",%d]", vh_stats[i].v, vh_stats[i].is_max);
	}
	fprintf(f, "},\"samples\":[");
	for (int i = 0; i < vh_nsamples; i++) {
		if (i)
			fputc(',', f);
		vh_json_str(f, vh_samples[i]);
	}
	fprintf(f, "],\"violations_total\":%" PRIu64 ",\"violations\":[", vh_viol_total);
	for (int i = 0; i < vh_nviol; i++) {
		if (i)
			fputc(',', f);
		fprintf(f, "{\"key\":");
		vh_json_str(f, vh_viol[i].key);
		fprintf(f, ",\"replay\":");
		vh_json_str(f, vh_viol[i].replay);
		fprintf(f, ",\"detail\":");
		vh_json_str(f, vh_viol[i].detail);
		fputc('}', f);
	}
	fprintf(f, "]}\n");
	fclose(f);

	/* distinct signatures go to a side file so the driver can union them
	 * across processes */
	if (vh_set && !crashed) {
		char path[1024];
		snprintf(path, sizeof(path), "%s.sig", vh_opt.out);
		FILE *g = fopen(path, "wb");
		if (g) {
			for (uint32_t i = 0; i < VH_SET_SIZE; i++)
				if (vh_set[i])
					fwrite(&vh_set[i], 8, 1, g);
			fclose(g);
		}
	}
}

/* Fatal signals (sanitizer abort, library assert, SIGSEGV, SIGFPE): attribute
 * to the current case, write the result file, leave. */
static volatile sig_atomic_t vh_in_fatal;
static void (*vh_fatal_hook)(int);
static void vh_fatal(int sig)
{
	if (vh_in_fatal)
		_exit(4);
	vh_in_fatal = 1;
	if (vh_fatal_hook)
		vh_fatal_hook(sig);
	char key[256];
	const char *name = sig == SIGABRT ? "abort" : sig == SIGSEGV ? "segv" :
			   sig == SIGFPE ? "fpe" : sig == SIGBUS ? "bus" :
			   sig == SIGILL ? "ill" : "signal";
	snprintf(key, sizeof(key), "crash-%s:%s", name, vh_cur_key);
	vh_violation(key, vh_cur_replay, "fatal signal %d while running case: %s", sig,
		     vh_cur_case);
	vh_write_result(1);
	_exit(3);
}

/* Per-case hang detector.  Cases normally take micro- to milliseconds; a case
 * that is still running after vh_case_timeout seconds is reported as
 * "hang:<case key>" with its replay arguments.  The driver re-runs exactly
 * that case with four times the budget and only then calls it a violation
 * (otherwise the run is inconclusive). */
static unsigned vh_case_timeout = 30;
static void vh_alarm(int sig)
{
	(void)sig;
	if (vh_in_fatal)
		_exit(4);
	vh_in_fatal = 1;
	char key[256];
	snprintf(key, sizeof(key), "hang:%s", vh_cur_key);
	vh_violation(key, vh_cur_replay, "case still running after %u s (normal cases take milliseconds): %s",
		     vh_case_timeout, vh_cur_case);
	vh_write_result(1);
	_exit(3);
}
static inline void vh_case_budget(unsigned seconds)
{
	vh_case_timeout = seconds;
	alarm(seconds);
}

static void vh_init(int argc, char **argv, const char *stage)
{
	vh_opt.stage = stage;
	for (int i = 1; i < argc; i++) {
		const char *a = argv[i];
		const char *v = (i + 1 < argc) ? argv[i + 1] : "";
		if (!strcmp(a, "--seed")) {
			vh_opt.seed = strtoull(v, NULL, 0);
			i++;
		} else if (!strcmp(a, "--tier")) {
			vh_opt.thorough = !strcmp(v, "thorough");
			i++;
		} else if (!strcmp(a, "--proc")) {
			sscanf(v, "%d/%d", &vh_opt.proc, &vh_opt.nproc);
			i++;
		} else if (!strcmp(a, "--out")) {
			vh_opt.out = v;
			i++;
		} else if (!strcmp(a, "--only-case")) {
			vh_opt.only_case = strtoll(v, NULL, 0);
			i++;
		} else if (!strcmp(a, "--cases")) {
			vh_opt.cases = strtoll(v, NULL, 0);
			i++;
		} else if (!strcmp(a, "--extra")) {
			vh_opt.extra = v;
			i++;
		} else if (!strcmp(a, "-v")) {
			vh_opt.verbose = 1;
		} else {
			fprintf(stderr, "vh: unknown argument %s\n", a);
			exit(2);
		}
	}
	if (vh_opt.nproc < 1)
		vh_opt.nproc = 1;
	/* fatal signals are handled on a stack of their own: a runaway recursion in the library must end as a
	 * crash witness, not as a process that dies without writing its result */
	static char vh_altstack[256 * 1024];
	stack_t ss;
	memset(&ss, 0, sizeof(ss));
	ss.ss_sp = vh_altstack;
	ss.ss_size = sizeof(vh_altstack);
	sigaltstack(&ss, NULL);
	struct sigaction sa;
	memset(&sa, 0, sizeof(sa));
	sa.sa_handler = vh_fatal;
	sa.sa_flags = SA_NODEFER | SA_ONSTACK;
	sigaction(SIGABRT, &sa, NULL);
	sigaction(SIGSEGV, &sa, NULL);
	sigaction(SIGFPE, &sa, NULL);
	sigaction(SIGBUS, &sa, NULL);
	sigaction(SIGILL, &sa, NULL);
	sa.sa_handler = vh_alarm;
	sigaction(SIGALRM, &sa, NULL);
	if (getenv("VH_CASE_TIMEOUT"))
		vh_case_timeout = (unsigned)atoi(getenv("VH_CASE_TIMEOUT"));
	snprintf(vh_cur_key, sizeof(vh_cur_key), "startup");
	snprintf(vh_cur_case, sizeof(vh_cur_case), "(before first case)");
}

/* cheap per-case bookkeeping: only the numbers are stored eagerly, text is
 * optional (hot loops pass NULL and rely on the replay argument) */
static inline void vh_case_key(const char *key)
{
	snprintf(vh_cur_key, sizeof(vh_cur_key), "%s", key);
	alarm(vh_case_timeout);
}
static void vh_case_desc(const char *fmt, ...)
{
	va_list ap;
	va_start(ap, fmt);
	vsnprintf(vh_cur_case, sizeof(vh_cur_case), fmt, ap);
	va_end(ap);
}
static void vh_case_replay(const char *fmt, ...)
{
	va_list ap;
	va_start(ap, fmt);
	vsnprintf(vh_cur_replay, sizeof(vh_cur_replay), fmt, ap);
	va_end(ap);
}

static int vh_finish(void)
{
	alarm(0);
	vh_write_result(0);
	return 0;
}

/* string builder used for witnesses/samples */
typedef struct {
	char b[VH_TEXT];
	int n;
} vh_sb_t;
static void vh_sb_reset(vh_sb_t *s)
{
	s->n = 0;
	s->b[0] = 0;
}
static void vh_sb_add(vh_sb_t *s, const char *fmt, ...)
{
	if (s->n >= VH_TEXT - 1)
		return;
	va_list ap;
	va_start(ap, fmt);
	int k = vsnprintf(s->b + s->n, VH_TEXT - s->n, fmt, ap);
	va_end(ap);
	if (k > 0)
		s->n += k;
	if (s->n > VH_TEXT - 1)
		s->n = VH_TEXT - 1;
}

#endif /* VH_H_ */

/*
 * shim.c - private ThreadSanitizer runtime: schedule points, interrupt
 * injection, ucontext coroutine scheduler, guard zones, census.
 * See shim.h.  Compiled WITHOUT -fsanitize=thread.
 */
#define _GNU_SOURCE
#include "shim.h"

#include <setjmp.h>
#include <stdio.h>
#include <stdlib.h>
#include <string.h>
#include <ucontext.h>

/* ------------------------------------------------------------ state */

static bool enabled;
static int level;
static uint64_t points[SHIM_MAX_LEVEL + 1];
static uint64_t total_points;
static uint64_t point_limit = 0;
static bool limit_hit;
static jmp_buf *abort_jmp;

static shim_isr_t *isr_fn;
static void *isr_ctx;
static int isr_entered[SHIM_MAX_LEVEL + 2];

#define MAX_PLAN 64
static struct {
	int level, occurrence, id;
	uint64_t point;
	bool used;
} plan[MAX_PLAN];
static int nplan;

static struct {
	uint32_t num;
	int max, done, id_base, id_n;
	uint64_t rng;
	bool on;
} rnd[SHIM_MAX_LEVEL + 1];

#define MAX_SITES 64
static struct {
	const void *pc;
	int level;
	uint64_t point;
} sites[MAX_SITES];
static int nsites;

static const void *func_stack[256];
static int func_sp;

static const void *watched;
static bool learn_fetch_or;
static int64_t last_watched_load = -1;
static int64_t last_write0 = -1;

#define MAX_GUARD 16
static struct {
	uintptr_t lo, hi;
} guards[MAX_GUARD];
static int nguards;
static uint64_t guard_hits;
static char guard_last[160];

static shim_census_t census;

/* coroutines */
#define MAX_CO 12
#define CO_STACK (256 * 1024)
typedef struct {
	ucontext_t ctx;
	char *stack;
	shim_thread_fn *fn;
	void *arg;
	bool done, started;
	int prio;
} co_t;
static co_t cos[MAX_CO];
static int nco, co_cur = -1;
static ucontext_t co_main;
static bool co_active;
static int co_policy;
static uint32_t co_param;
static uint64_t co_rng;
static uint64_t co_hash, co_switches, co_budget, co_points;
static uint64_t pct_change[8];
static int pct_nchange;
static bool co_cut;
static uint64_t co_run_len;

static inline uint64_t rng_next(uint64_t *s)
{
	uint64_t z = (*s += 0x9e3779b97f4a7c15ull);
	z = (z ^ (z >> 30)) * 0xbf58476d1ce4e5b9ull;
	z = (z ^ (z >> 27)) * 0x94d049bb133111ebull;
	return z ^ (z >> 31);
}

/* ------------------------------------------------------------ API */

void shim_reset(void)
{
	enabled = false;
	level = 0;
	memset(points, 0, sizeof(points));
	total_points = 0;
	limit_hit = false;
	nplan = 0;
	memset(rnd, 0, sizeof(rnd));
	memset(isr_entered, 0, sizeof(isr_entered));
	nsites = 0;
	func_sp = 0;
	last_watched_load = -1;
	last_write0 = -1;
	nguards = 0;
	guard_hits = 0;
	guard_last[0] = 0;
}
void shim_enable(bool on) { enabled = on; }
uint64_t shim_points(int l) { return points[l]; }
uint64_t shim_total_points(void) { return total_points; }
void shim_set_isr(shim_isr_t *fn, void *ctx)
{
	isr_fn = fn;
	isr_ctx = ctx;
}
void shim_plan_add(int l, int occurrence, uint64_t point, int id)
{
	if (nplan < MAX_PLAN) {
		plan[nplan].level = l;
		plan[nplan].occurrence = occurrence;
		plan[nplan].point = point;
		plan[nplan].id = id;
		plan[nplan].used = false;
		nplan++;
	}
}
void shim_plan_clear(void) { nplan = 0; }
void shim_random_isr(int l, uint32_t num, int max, int id_base, int id_n, uint64_t seed)
{
	rnd[l].on = true;
	rnd[l].num = num;
	rnd[l].max = max;
	rnd[l].done = 0;
	rnd[l].id_base = id_base;
	rnd[l].id_n = id_n;
	rnd[l].rng = seed * 0x2545f4914f6cdd1dull + (uint64_t)l;
}
int shim_isr_count(int l) { return isr_entered[l]; }
int shim_level(void) { return level; }
int shim_isr_sites(void) { return nsites; }
const void *shim_isr_site(int n, int *l, uint64_t *p)
{
	if (n < 0 || n >= nsites)
		return NULL;
	if (l)
		*l = sites[n].level;
	if (p)
		*p = sites[n].point;
	return sites[n].pc;
}
void shim_learn_next_fetch_or(void) { learn_fetch_or = true; }
const void *shim_watched(void) { return watched; }
void shim_watch(const void *a) { watched = a; }
int64_t shim_last_watched_load(void) { return last_watched_load; }
void shim_clear_last_watched_load(void)
{
	last_watched_load = -1;
	last_write0 = -1;
}
int64_t shim_last_write0(void) { return last_write0; }
void shim_guard_add(const void *lo, size_t len)
{
	if (nguards < MAX_GUARD) {
		guards[nguards].lo = (uintptr_t)lo;
		guards[nguards].hi = (uintptr_t)lo + len;
		nguards++;
	}
}
void shim_guard_clear(void) { nguards = 0; }
uint64_t shim_guard_hits(void) { return guard_hits; }
const char *shim_guard_last(void) { return guard_last; }
const shim_census_t *shim_census(void) { return &census; }
void shim_set_point_limit(uint64_t l) { point_limit = l; }
bool shim_point_limit_hit(void) { return limit_hit; }
void shim_set_abort_jmp(jmp_buf *j);
void shim_set_abort_jmp(jmp_buf *j) { abort_jmp = j; }

/* ------------------------------------------------------------ coroutines */

static void co_trampoline(void)
{
	co_t *c = &cos[co_cur];
	c->fn(c->arg);
	c->done = true;
	/* pick somebody else; if nobody, back to main */
	for (;;) {
		int n = -1;
		for (int i = 0; i < nco; i++)
			if (!cos[i].done && (n < 0 || (co_policy == SHIM_POLICY_PCT && cos[i].prio > cos[n].prio)))
				n = i;
		if (n < 0) {
			co_cur = -1;
			setcontext(&co_main);
		}
		if (co_policy == SHIM_POLICY_RANDOM) {
			int alive[MAX_CO], na = 0;
			for (int i = 0; i < nco; i++)
				if (!cos[i].done)
					alive[na++] = i;
			n = alive[rng_next(&co_rng) % (uint64_t)na];
		}
		co_cur = n;
		co_hash = (co_hash ^ (uint64_t)(n + 1)) * 0x100000001b3ull;
		setcontext(&cos[n].ctx);
	}
}

void shim_co_begin(int policy, uint32_t param, uint64_t seed)
{
	for (int i = 0; i < nco; i++) {
		free(cos[i].stack);
		cos[i].stack = NULL;
	}
	nco = 0;
	co_policy = policy;
	co_param = param;
	co_rng = seed * 0x9e3779b97f4a7c15ull + 12345;
	co_hash = 0xcbf29ce484222325ull;
	co_switches = 0;
	co_points = 0;
	co_cut = false;
	pct_nchange = 0;
}

int shim_co_spawn(shim_thread_fn *fn, void *arg)
{
	if (nco >= MAX_CO)
		abort();
	co_t *c = &cos[nco];
	memset(c, 0, sizeof(*c));
	c->stack = malloc(CO_STACK);
	c->fn = fn;
	c->arg = arg;
	getcontext(&c->ctx);
	c->ctx.uc_stack.ss_sp = c->stack;
	c->ctx.uc_stack.ss_size = CO_STACK;
	c->ctx.uc_link = NULL;
	makecontext(&c->ctx, co_trampoline, 0);
	return nco++;
}

static void co_switch_to(int n)
{
	if (n == co_cur)
		return;
	int prev = co_cur;
	co_cur = n;
	co_run_len = 0;
	co_switches++;
	co_hash = (co_hash ^ ((uint64_t)(n + 1) + (co_points << 8))) * 0x100000001b3ull;
	swapcontext(&cos[prev].ctx, &cos[n].ctx);
}

static int co_pick_other(void)
{
	int alive[MAX_CO], na = 0;
	for (int i = 0; i < nco; i++)
		if (!cos[i].done && i != co_cur)
			alive[na++] = i;
	if (!na)
		return co_cur;
	return alive[rng_next(&co_rng) % (uint64_t)na];
}

static int co_highest(void)
{
	int n = -1;
	for (int i = 0; i < nco; i++)
		if (!cos[i].done && (n < 0 || cos[i].prio > cos[n].prio))
			n = i;
	return n;
}

static void co_point(void)
{
	co_points++;
	if (co_budget && co_points > co_budget) {
		/* livelock suspect: abandon the run */
		co_cut = true;
		co_cur = -1;
		setcontext(&co_main);
	}
	if (co_policy == SHIM_POLICY_RANDOM) {
		if ((rng_next(&co_rng) & 0xffff) < co_param)
			co_switch_to(co_pick_other());
	} else {
		for (int i = 0; i < pct_nchange; i++)
			if (pct_change[i] == co_points) {
				cos[co_cur].prio = -(int)(i + 1); /* drop below everybody */
				break;
			}
		if (++co_run_len > 3000) {
			/* a thread spinning inside library code (ringbuf_putchar) would starve the others
			 * under a pure priority schedule: treat a very long run like a back-off */
			int lowest = 0;
			for (int i = 0; i < nco; i++)
				if (!cos[i].done && cos[i].prio < lowest)
					lowest = cos[i].prio;
			cos[co_cur].prio = lowest - 1;
			co_run_len = 0;
		}
		int h = co_highest();
		if (h >= 0 && h != co_cur)
			co_switch_to(h);
	}
}

void shim_co_backoff(void)
{
	if (!co_active || co_cur < 0)
		return;
	co_points++;
	if (co_budget && co_points > co_budget) {
		co_cut = true;
		co_cur = -1;
		setcontext(&co_main);
	}
	if (co_policy == SHIM_POLICY_PCT) {
		/* a spinning thread must let a lower-priority thread make progress:
		 * move it below everybody else */
		int lowest = 0;
		for (int i = 0; i < nco; i++)
			if (!cos[i].done && cos[i].prio < lowest)
				lowest = cos[i].prio;
		cos[co_cur].prio = lowest - 1;
		int h = co_highest();
		if (h >= 0 && h != co_cur)
			co_switch_to(h);
	} else {
		co_switch_to(co_pick_other());
	}
}

bool shim_co_run(uint64_t point_budget)
{
	if (!nco)
		return true;
	co_budget = point_budget;
	if (co_policy == SHIM_POLICY_PCT) {
		/* random distinct priorities; d-1 change points within an assumed length */
		for (int i = 0; i < nco; i++)
			cos[i].prio = 0;
		int order[MAX_CO];
		for (int i = 0; i < nco; i++)
			order[i] = i;
		for (int i = nco - 1; i > 0; i--) {
			int j = (int)(rng_next(&co_rng) % (uint64_t)(i + 1));
			int t = order[i];
			order[i] = order[j];
			order[j] = t;
		}
		for (int i = 0; i < nco; i++)
			cos[order[i]].prio = 100 + i;
		pct_nchange = co_param > 1 ? (int)co_param - 1 : 0;
		if (pct_nchange > 8)
			pct_nchange = 8;
		uint64_t est = point_budget && point_budget < 4000 ? point_budget : 4000;
		for (int i = 0; i < pct_nchange; i++)
			pct_change[i] = 1 + rng_next(&co_rng) % est;
	}
	co_active = true;
	volatile bool first = true;
	getcontext(&co_main);
	if (first) {
		first = false;
		int n = co_policy == SHIM_POLICY_PCT ? co_highest() : (int)(rng_next(&co_rng) % (uint64_t)nco);
		co_cur = n;
		co_hash = (co_hash ^ (uint64_t)(n + 1)) * 0x100000001b3ull;
		setcontext(&cos[n].ctx);
	}
	co_active = false;
	co_cur = -1;
	return !co_cut;
}
int shim_co_self(void) { return co_cur; }
uint64_t shim_co_schedule_hash(void) { return co_hash; }
uint64_t shim_co_switches(void) { return co_switches; }

/* ------------------------------------------------------------ the schedule point */

static bool in_point; /* no re-entry from harness callbacks that are (wrongly) instrumented */

static void guard_check(const void *addr, size_t size, const char *what)
{
	uintptr_t a = (uintptr_t)addr;
	for (int i = 0; i < nguards; i++)
		if (a < guards[i].hi && a + size > guards[i].lo) {
			guard_hits++;
			snprintf(guard_last, sizeof(guard_last), "%s of %zu byte(s) at guard zone %d offset %+ld (in function pc %p)", what,
				 size, i, (long)(a - guards[i].lo), func_sp ? func_stack[func_sp - 1] : NULL);
		}
}

static void run_isr(int id)
{
	if (!isr_fn || level >= SHIM_MAX_LEVEL - 0)
		return;
	if (nsites < MAX_SITES) {
		sites[nsites].pc = func_sp ? func_stack[func_sp - 1] : NULL;
		sites[nsites].level = level;
		sites[nsites].point = points[level] - 1;
		nsites++;
	}
	int saved_sp = func_sp;
	level++;
	points[level] = 0;
	isr_entered[level]++;
	isr_fn(level, id, isr_ctx);
	level--;
	func_sp = saved_sp;
}

static void shim_point(void)
{
	if (!enabled || in_point)
		return;
	total_points++;
	uint64_t idx = points[level]++;
	if (point_limit && total_points > point_limit) {
		limit_hit = true;
		if (co_active) {
			co_cut = true;
			co_cur = -1;
			setcontext(&co_main);
		}
		if (abort_jmp) {
			level = 0;
			enabled = false;
			longjmp(*abort_jmp, 1);
		}
	}
	if (co_active && co_cur >= 0) {
		co_point();
		return;
	}
	/* planned injection */
	for (int i = 0; i < nplan; i++)
		if (!plan[i].used && plan[i].level == level && plan[i].point == idx &&
		    (level == 0 || plan[i].occurrence == isr_entered[level])) {
			plan[i].used = true;
			run_isr(plan[i].id);
		}
	if (rnd[level].on && rnd[level].done < rnd[level].max) {
		uint64_t x = rng_next(&rnd[level].rng);
		if ((x & 0xffff) < rnd[level].num) {
			rnd[level].done++;
			run_isr(rnd[level].id_base + (int)((x >> 16) % (uint64_t)(rnd[level].id_n ? rnd[level].id_n : 1)));
		}
	}
}

void shim_harness_point(void) { shim_point(); }

/* ------------------------------------------------------------ __tsan_* entry points */

void __tsan_init(void) {}
void __tsan_func_entry(void *pc)
{
	if (func_sp < 256)
		func_stack[func_sp] = pc;
	func_sp++;
}
void __tsan_func_exit(void)
{
	if (func_sp > 0)
		func_sp--;
}

#define PLAIN(name, size, is_write)                                                                                    \
	void name(void *addr)                                                                                          \
	{                                                                                                              \
		if (!enabled)                                                                                          \
			return;                                                                                        \
		if (is_write) {                                                                                        \
			census.plain_writes++;                                                                         \
			if (level == 0)                                                                                \
				last_write0 = (int64_t)points[0];                                                      \
		} else                                                                                                   \
			census.plain_reads++;                                                                          \
		if (nguards)                                                                                           \
			guard_check(addr, size, is_write ? "write" : "read");                                          \
		shim_point();                                                                                          \
	}
PLAIN(__tsan_read1, 1, 0)
PLAIN(__tsan_read2, 2, 0)
PLAIN(__tsan_read4, 4, 0)
PLAIN(__tsan_read8, 8, 0)
PLAIN(__tsan_read16, 16, 0)
PLAIN(__tsan_write1, 1, 1)
PLAIN(__tsan_write2, 2, 1)
PLAIN(__tsan_write4, 4, 1)
PLAIN(__tsan_write8, 8, 1)
PLAIN(__tsan_write16, 16, 1)
PLAIN(__tsan_unaligned_read2, 2, 0)
PLAIN(__tsan_unaligned_read4, 4, 0)
PLAIN(__tsan_unaligned_read8, 8, 0)
PLAIN(__tsan_unaligned_read16, 16, 0)
PLAIN(__tsan_unaligned_write2, 2, 1)
PLAIN(__tsan_unaligned_write4, 4, 1)
PLAIN(__tsan_unaligned_write8, 8, 1)
PLAIN(__tsan_unaligned_write16, 16, 1)
PLAIN(__tsan_volatile_read1, 1, 0)
PLAIN(__tsan_volatile_read2, 2, 0)
PLAIN(__tsan_volatile_read4, 4, 0)
PLAIN(__tsan_volatile_read8, 8, 0)
PLAIN(__tsan_volatile_write1, 1, 1)
PLAIN(__tsan_volatile_write2, 2, 1)
PLAIN(__tsan_volatile_write4, 4, 1)
PLAIN(__tsan_volatile_write8, 8, 1)

void __tsan_read_range(void *addr, unsigned long size)
{
	if (!enabled)
		return;
	census.plain_reads++;
	if (nguards)
		guard_check(addr, size, "range read");
	shim_point();
}
void __tsan_write_range(void *addr, unsigned long size)
{
	if (!enabled)
		return;
	census.plain_writes++;
	if (nguards)
		guard_check(addr, size, "range write");
	shim_point();
}
void __tsan_vptr_update(void **vptr_p, void *new_val)
{
	(void)vptr_p;
	(void)new_val;
}
void __tsan_vptr_read(void **vptr_p) { (void)vptr_p; }

static inline void atomic_pre(const volatile void *a, size_t size, int mo, int kind)
{
	if (!enabled)
		return;
	if (mo >= 0 && mo < 6)
		census.atomic_by_order[mo]++;
	switch (kind) {
	case 0: census.loads++; break;
	case 1: census.stores++; break;
	case 2: census.rmws++; break;
	default: census.cas++; break;
	}
	if (nguards)
		guard_check((const void *)a, size, "atomic access");
	if (kind == 0 && watched && (const void *)a == watched && level == 0)
		last_watched_load = (int64_t)points[0];
	shim_point();
}

#define ATOMICS(N, T)                                                                                                  \
	T __tsan_atomic##N##_load(const volatile T *a, int mo)                                                         \
	{                                                                                                              \
		atomic_pre(a, sizeof(T), mo, 0);                                                                       \
		return __atomic_load_n(a, __ATOMIC_SEQ_CST);                                                           \
	}                                                                                                              \
	void __tsan_atomic##N##_store(volatile T *a, T v, int mo)                                                      \
	{                                                                                                              \
		atomic_pre(a, sizeof(T), mo, 1);                                                                       \
		__atomic_store_n(a, v, __ATOMIC_SEQ_CST);                                                              \
	}                                                                                                              \
	T __tsan_atomic##N##_exchange(volatile T *a, T v, int mo)                                                      \
	{                                                                                                              \
		atomic_pre(a, sizeof(T), mo, 2);                                                                       \
		return __atomic_exchange_n(a, v, __ATOMIC_SEQ_CST);                                                    \
	}                                                                                                              \
	T __tsan_atomic##N##_fetch_add(volatile T *a, T v, int mo)                                                     \
	{                                                                                                              \
		atomic_pre(a, sizeof(T), mo, 2);                                                                       \
		return __atomic_fetch_add(a, v, __ATOMIC_SEQ_CST);                                                     \
	}                                                                                                              \
	T __tsan_atomic##N##_fetch_sub(volatile T *a, T v, int mo)                                                     \
	{                                                                                                              \
		atomic_pre(a, sizeof(T), mo, 2);                                                                       \
		return __atomic_fetch_sub(a, v, __ATOMIC_SEQ_CST);                                                     \
	}                                                                                                              \
	T __tsan_atomic##N##_fetch_and(volatile T *a, T v, int mo)                                                     \
	{                                                                                                              \
		atomic_pre(a, sizeof(T), mo, 2);                                                                       \
		return __atomic_fetch_and(a, v, __ATOMIC_SEQ_CST);                                                     \
	}                                                                                                              \
	T __tsan_atomic##N##_fetch_or(volatile T *a, T v, int mo)                                                      \
	{                                                                                                              \
		if (learn_fetch_or) {                                                                                  \
			learn_fetch_or = false;                                                                        \
			watched = (const void *)a;                                                                     \
		}                                                                                                      \
		atomic_pre(a, sizeof(T), mo, 2);                                                                       \
		return __atomic_fetch_or(a, v, __ATOMIC_SEQ_CST);                                                      \
	}                                                                                                              \
	T __tsan_atomic##N##_fetch_xor(volatile T *a, T v, int mo)                                                     \
	{                                                                                                              \
		atomic_pre(a, sizeof(T), mo, 2);                                                                       \
		return __atomic_fetch_xor(a, v, __ATOMIC_SEQ_CST);                                                     \
	}                                                                                                              \
	T __tsan_atomic##N##_fetch_nand(volatile T *a, T v, int mo)                                                    \
	{                                                                                                              \
		atomic_pre(a, sizeof(T), mo, 2);                                                                       \
		return __atomic_fetch_nand(a, v, __ATOMIC_SEQ_CST);                                                    \
	}                                                                                                              \
	int __tsan_atomic##N##_compare_exchange_strong(volatile T *a, T *c, T v, int mo, int fmo)                      \
	{                                                                                                              \
		(void)fmo;                                                                                             \
		atomic_pre(a, sizeof(T), mo, 3);                                                                       \
		return __atomic_compare_exchange_n(a, c, v, 0, __ATOMIC_SEQ_CST, __ATOMIC_SEQ_CST);                    \
	}                                                                                                              \
	int __tsan_atomic##N##_compare_exchange_weak(volatile T *a, T *c, T v, int mo, int fmo)                        \
	{                                                                                                              \
		(void)fmo;                                                                                             \
		atomic_pre(a, sizeof(T), mo, 3);                                                                       \
		return __atomic_compare_exchange_n(a, c, v, 0, __ATOMIC_SEQ_CST, __ATOMIC_SEQ_CST);                    \
	}                                                                                                              \
	T __tsan_atomic##N##_compare_exchange_val(volatile T *a, T c, T v, int mo, int fmo)                            \
	{                                                                                                              \
		(void)fmo;                                                                                             \
		atomic_pre(a, sizeof(T), mo, 3);                                                                       \
		__atomic_compare_exchange_n(a, &c, v, 0, __ATOMIC_SEQ_CST, __ATOMIC_SEQ_CST);                          \
		return c;                                                                                              \
	}

ATOMICS(8, unsigned char)
ATOMICS(16, unsigned short)
ATOMICS(32, unsigned int)
ATOMICS(64, unsigned long)

void __tsan_atomic_thread_fence(int mo)
{
	if (!enabled)
		return;
	if (mo >= 0 && mo < 6)
		census.atomic_by_order[mo]++;
	census.fences++;
	shim_point();
	__atomic_thread_fence(__ATOMIC_SEQ_CST);
}
void __tsan_atomic_signal_fence(int mo)
{
	if (!enabled)
		return;
	census.fences++;
	(void)mo;
	/* a compiler barrier: not a point at which other contexts can observe anything new */
	__atomic_signal_fence(__ATOMIC_SEQ_CST);
}

/*
 * shim.h - private ThreadSanitizer runtime used as a schedule-control engine
 * (engine E2, DESIGN.md 2.2).
 *
 * librfn objects are compiled with -fsanitize=thread and linked against
 * shim.c instead of libtsan.  Every plain access to escaping memory and every
 * atomic operation of librfn then calls into the shim *before* it executes;
 * each such call is a schedule point.  Harness and shim code are compiled
 * without instrumentation, so monitors never create schedule points.
 */
#ifndef SHIM_H_
#define SHIM_H_

#include <stdbool.h>
#include <stddef.h>
#include <stdint.h>

#define SHIM_MAX_LEVEL 3 /* main + two nested interrupt levels (+1 spare) */

/* ---- common ---- */
void shim_reset(void);              /* forget plans, counters, guards, watch */
void shim_enable(bool on);          /* schedule points are live only while on */
uint64_t shim_points(int level);    /* schedule points seen at that nesting level since it was (re)entered */
uint64_t shim_total_points(void);   /* all levels, since reset */
void shim_harness_point(void);      /* an explicit schedule point placed by harness code */

/* ---- interrupt injection (run-to-completion, nested) ---- */
typedef void shim_isr_t(int level, int id, void *ctx);
void shim_set_isr(shim_isr_t *fn, void *ctx);
/* inject ISR `id` before schedule point `point` of nesting level `level`
 * (level 0 = main context; level 1 = inside the `occurrence`-th first-level
 * ISR of this run, ...) */
void shim_plan_add(int level, int occurrence, uint64_t point, int id);
void shim_plan_clear(void);
/* random injection: before each point of `level` inject with probability
 * num/2^16, at most `max` times in total; ids drawn as id_base + rng % id_n */
void shim_random_isr(int level, uint32_t num, int max, int id_base, int id_n, uint64_t seed);
int shim_isr_count(int level);      /* ISRs entered at `level` (1 or 2) so far */
int shim_level(void);               /* current nesting level */
/* description of where the n-th injected ISR landed: the innermost instrumented function (pc) */
const void *shim_isr_site(int n, int *level, uint64_t *point);
int shim_isr_sites(void);

/* ---- watched atomic word (C03: "the scheduler's final check") ---- */
void shim_learn_next_fetch_or(void);       /* the next atomic fetch_or's address becomes the watched word */
const void *shim_watched(void);
void shim_watch(const void *addr);
int64_t shim_last_watched_load(void);      /* level-0 point index of the last atomic load of the watched word, -1 none */
void shim_clear_last_watched_load(void);      /* also clears the last-write index */
int64_t shim_last_write0(void);            /* level-0 point index of the last plain write by instrumented code, -1 none */

/* ---- guard zones: ranges librfn must never touch ---- */
void shim_guard_add(const void *lo, size_t len);
void shim_guard_clear(void);
uint64_t shim_guard_hits(void);
const char *shim_guard_last(void);         /* description of the last hit */

/* ---- free preemption: ucontext coroutines ---- */
typedef void shim_thread_fn(void *arg);
enum { SHIM_POLICY_RANDOM, SHIM_POLICY_PCT };
void shim_co_begin(int policy, uint32_t param, uint64_t seed); /* RANDOM: switch prob = param/2^16; PCT: param = depth d */
int shim_co_spawn(shim_thread_fn *fn, void *arg);
/* runs all spawned threads to completion; returns false if the run was cut by the point budget (livelock suspect) */
bool shim_co_run(uint64_t point_budget);
void shim_co_backoff(void);                /* called by harness spin loops: lets somebody else run */
int shim_co_self(void);
uint64_t shim_co_schedule_hash(void);
uint64_t shim_co_switches(void);

/* ---- memory-order census (evidence only) ---- */
typedef struct {
	uint64_t plain_reads, plain_writes;
	uint64_t atomic_by_order[6]; /* relaxed, consume, acquire, release, acq_rel, seq_cst */
	uint64_t loads, stores, rmws, cas, fences;
} shim_census_t;
const shim_census_t *shim_census(void);

/* livelock guard: a run that exceeds this many points inside one shim_enable(true) window sets the flag */
void shim_set_point_limit(uint64_t limit);
bool shim_point_limit_hit(void);

#endif

#!/bin/sh
# setup_cmd: offline self-test of the toolchain pieces the checks rely on.
# Builds nothing persistent: every check rebuilds its harness from /repo's
# working tree on every run.
set -e
cd "$(dirname "$0")"
mkdir -p build evidence replays
t=build/.setup
rm -rf $t; mkdir -p $t
printf 'int main(void){return 0;}\n' > $t/a.c
gcc -fsanitize=address,undefined $t/a.c -o $t/asan && $t/asan
gcc -fsanitize=thread $t/a.c -o $t/tsan && $t/tsan
clang -fsanitize=address,undefined $t/a.c -o $t/casan && $t/casan
python3 -c 'import json,array,subprocess'
rm -rf $t
echo setup ok

#!/usr/bin/env python3
"""Build every stage of every property (both tiers) without running it: catches compiler-specific build breaks."""
import os, sys
sys.dont_write_bytecode = True
sys.path.insert(0, os.path.join(os.path.dirname(os.path.abspath(__file__)), '..', 'lib'))
import driver, props
bad = 0
for pid, p in sorted(props.PROPS.items()):
    ctx = driver.Ctx(pid + '-buildall', 'thorough', 1, os.environ.get('LIBRFN_REPO', '/repo'))
    for st in p['stages']:
        exe = driver.build_stage(ctx, st)
        print('%s %-22s %-6s %-9s %s' % (pid, st.name, st.cc, st.preset, 'ok' if exe else 'BUILD FAILED'))
        bad += 0 if exe else 1
    import shutil
    shutil.rmtree(ctx.build, ignore_errors=True)
print('failed stages:', bad)
sys.exit(1 if bad else 0)

#!/usr/bin/env python3
"""Print the prompt handed to an independent sub-agent that seeds a property-breaking change.
usage: agent_prompt.py C09 [variant-hint]"""
import json, sys
pid = sys.argv[1]
hint = sys.argv[2] if len(sys.argv) > 2 else ''
# a hint of the form "<suffix> AVOID" lists what the earlier seeds for this property changed, so that a new round looks elsewhere
if hint.endswith('AVOID'):
    import glob, os
    used = []
    for d in sorted(set(glob.glob('/verif/seeded/%s-*' % pid))):
        try:
            used.append('(%d) %s' % (len(used) + 1, json.load(open(os.path.join(d, 'meta.json')))['summary'].replace('\n', ' ')[:260]))
        except Exception:
            pass
    hint = hint[:-5].strip() + ' Earlier rounds already produced the following changes for this property; do NOT repeat any of them or a close variant, attack different code paths, clauses and mechanisms: ' + ' '.join(dict.fromkeys(used))
for l in open('/verif/properties.jsonl'):
    p = json.loads(l)
    if p['id'] == pid:
        break
wt = '/tmp/wt-%s%s' % (pid, ('-' + hint.split()[0]) if hint else '')
out = '/tmp/seed-%s%s' % (pid, ('-' + hint.split()[0]) if hint else '')
print(f"""You are helping to evaluate a verification effort for the C library librfn (daniel-thompson/librfn), by
writing realistic *bugs*: small source changes that break a stated property of the library but that the library's
existing test-suite does not notice.

Your private scratch git worktree of the library is at {wt} (already created; it is yours alone).
Work ONLY inside {wt} and {out}. Do NOT read or touch /repo or /verif at all (they are off limits), and do not
commit anything anywhere.

The property ({p['id']}: {p['title']}):

STATEMENT: {p['statement']}

QUANTIFIED OVER: {p['quantifier']['text']}

The code concerned is mainly in: {', '.join(p['anchors']['files'])}

Task. Produce TWO different, independent changes to the library sources (under librfn/ or include/), each of which:
  1. still compiles without warnings under the project's own build (CFLAGS include -Wall -Werror), and the project's
     existing test suite still passes completely with it. Build and test like this, inside the worktree:
         cd {wt} && autoreconf -i >/dev/null 2>&1 && ./configure >/dev/null && make -j8 check 2>&1 | grep -E '^# (TOTAL|PASS|FAIL)'
     (17 tests, all must pass; re-run `make -j8 check` after each change);
  2. makes the property above FALSE for the real code - a genuine behavioural bug of the kind a maintainer could
     plausibly introduce in a refactoring or "optimisation" (an off-by-one, a dropped guard, a weakened memory
     order, a reordered pair of statements, a wrong constant, a missing re-initialisation, ...), not sabotage that is
     obviously wrong at a glance and not a change to the tests;
  3. needs something SPECIFIC in order to manifest: a particular interleaving or interrupt placement, a multi-step
     sequence of operations, an unusual input or geometry, a boundary value, or two sites that each look fine alone.
     A change that ordinary use would expose at once is not wanted. Prefer subtle over blatant.
The two changes should attack different mechanisms/clauses of the property.

For each change k in (1, 2) write into {out}/k/ :
  - patch.diff : `git diff` of the change against the worktree's HEAD (apply-able with `git apply` at the repo root);
  - demo.c (or demo.sh + files): a small stand-alone demonstration program that exits non-zero / fails WITH the change
    and exits 0 WITHOUT it. It should compile directly against the sources, e.g.
        gcc -std=gnu11 -I{wt}/include demo.c {wt}/librfn/<needed>.c -o demo -lpthread
    (librfn/util.c needs librfn/posix/time_posix.c and librfn/string.c; do not link librfn/posix/console_posix.c,
    supply an empty `void console_hwinit(console_t *c) {{}}` instead if you use the console). If the bug needs a
    particular thread interleaving, make the demonstration deterministic (e.g. by calling the second party from a
    hook/callback at the critical point, or by looping until it shows) and say how reliable it is;
  - meta.json : {{"property": "{p['id']}", "summary": "...what was changed...", "needs": "...what it needs in order to
    manifest...", "demo_cmd": "...exact compile+run command...", "verified": "...what you ran and observed, with and
    without the change, including the make check result..."}}.
Verify all of it yourself: make check passes with the change; demo fails with it and passes without it. When you are
done, restore the worktree to a clean state (git -C {wt} checkout -- . ) but leave {out} in place.
{('Extra guidance: ' + hint) if hint else ''}
Reply with a short summary of the two changes, one paragraph each.""")

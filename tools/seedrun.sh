#!/bin/bash
# usage: tools/seedrun.sh <seeded-dir-name> [tier] [check-id]
# Applies /verif/seeded/<name>/patch.diff to /repo, runs the property's check, reverts /repo straight afterwards.
# The evidence file of the real tree is preserved. Prints CAUGHT/MISSED and appends to seeded/<name>/result.txt.
name=$1; tier=${2:-quick}
d=/verif/seeded/$name
id=${3:-$(python3 -c "import json; print(json.load(open('$d/meta.json'))['property'])")}
cd /repo; [ -z "$(git status --short | grep -v gammademo)" ] || { echo "/repo not clean"; exit 2; }
git apply $d/patch.diff || { echo "APPLY-FAILED $name"; exit 2; }
cd /verif
[ -f evidence/$id.json ] && cp evidence/$id.json /var/tmp/ev-$$.json
out=$(./check $id --tier $tier 2>&1); rc=$?
git -C /repo checkout -- .
[ -f /var/tmp/ev-$$.json ] && mv /var/tmp/ev-$$.json evidence/$id.json
if [ $rc -eq 1 ]; then r="CAUGHT $name by ./check $id --tier $tier: $(echo "$out" | grep -m1 '  key:' | sed 's/^ *//')";
else r="MISSED $name by ./check $id --tier $tier (rc=$rc)"; fi
echo "$r"; echo "$(date -u +%FT%TZ) $r" >> $d/result.txt
[ $rc -eq 1 ] || echo "$out" | tail -4

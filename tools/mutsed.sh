#!/bin/sh
# usage: tools/mutsed.sh <ID> <file relative to repo> <sed expression> [tier]
# Quick probe: copies the librfn sources to a scratch dir, edits one file with sed, runs the check against the copy.
# Prints CAUGHT / MISSED / NOCHANGE and the diff. Evidence of the real tree is preserved.
id=$1; file=$2; expr=$3; tier=${4:-quick}
VERIF=$(cd "$(dirname "$0")/.." && pwd)
s=/var/tmp/librfn-sed-$$
rm -rf $s; mkdir -p $s
cp -r /repo/include /repo/librfn $s/
find $s -name '*.o' -delete; find $s -name '*.a' -delete
sed -i -E "$expr" $s/$file
if diff -q /repo/$file $s/$file >/dev/null; then echo "NOCHANGE $file $expr"; rm -rf $s; exit 2; fi
diff -u /repo/$file $s/$file | grep '^[-+][^-+]'
cd $VERIF
[ -f evidence/$id.json ] && cp evidence/$id.json /var/tmp/ev-$$.json
out=$(LIBRFN_REPO=$s ./check $id --tier $tier 2>&1); rc=$?
[ -f /var/tmp/ev-$$.json ] && mv /var/tmp/ev-$$.json evidence/$id.json
rm -rf $s
if [ $rc -eq 1 ]; then echo "CAUGHT $id: $(echo "$out" | grep -m1 '  key:')"; else echo "MISSED $id rc=$rc"; echo "$out" | grep -E "INCONCLUSIVE" | head -3; fi

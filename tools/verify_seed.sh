#!/bin/bash
# usage: tools/verify_seed.sh <Cxx> <k> [suffix]
# Independently confirms a seeded change produced by a sub-agent: in the agent's (clean) scratch worktree apply the
# patch, build + run the pinned test-suite (17 must pass), run the demonstration (must fail), revert, run it again
# (must pass). On success copies patch.diff, the demonstration and an augmented meta.json to /verif/seeded/<Cxx>-<k>/.
id=$1; k=$2; sfx=$3
wt=/tmp/wt-$id$sfx; sd=/tmp/seed-$id$sfx/$k
[ -d $wt ] || { echo "no worktree $wt"; exit 2; }
cd $wt || exit 2
git checkout -q -- . ; git status --short | grep -v gammademo
git apply --check $sd/patch.diff || { echo "SEED $id-$k: patch does not apply"; exit 1; }
git apply $sd/patch.diff
[ -f configure ] || { autoreconf -i >/dev/null 2>&1 && ./configure >/dev/null 2>&1; }
res=$(timeout 900 make -j8 check 2>&1 | grep -E '^# (PASS|FAIL|TOTAL)' | tr -d '\n')
cmd=$(python3 -c "import json,sys; print(json.load(open('$sd/meta.json'))['demo_cmd'])")
( cd $sd && timeout 600 bash -c "$cmd" ) > /tmp/seed-demo-with.log 2>&1; with=$?
e=$(grep -o 'exit=[0-9]*' /tmp/seed-demo-with.log | tail -1 | cut -d= -f2); [ -n "$e" ] && [ $with -eq 0 ] && with=$e
git checkout -q -- .
( cd $sd && timeout 600 bash -c "$cmd" ) > /tmp/seed-demo-without.log 2>&1; without=$?
e=$(grep -o 'exit=[0-9]*' /tmp/seed-demo-without.log | tail -1 | cut -d= -f2); [ -n "$e" ] && [ $without -eq 0 ] && without=$e
echo "SEED $id$sfx-$k: make check with patch: [$res]; demo exit with=$with without=$without"
if echo "$res" | grep -q "PASS:  17# .*FAIL:  0" || echo "$res" | grep -q "# TOTAL: 17# PASS:  17"; then okc=1; else okc=0; fi
if [ $okc = 1 ] && [ $with -ne 0 ] && [ $without -eq 0 ]; then
  d=/verif/seeded/$id$sfx-$k; mkdir -p $d
  cp $sd/patch.diff $d/; for f in $sd/demo* ; do cp -r $f $d/; done
  python3 - <<PY
import json
m=json.load(open('$sd/meta.json'))
m['confirmed_by_me']={'make_check_with_patch':'$res','demo_exit_with_patch':$with,'demo_exit_without_patch':$without,
  'how':'tools/verify_seed.sh in a scratch worktree (removed afterwards)'}
json.dump(m,open('$d/meta.json','w'),indent=1)
PY
  echo "  kept as $d"
else
  echo "  NOT CONFIRMED (okc=$okc)"; tail -5 /tmp/seed-demo-with.log
fi

#!/bin/bash
# usage: tools/soak.sh "<seeds>" [tier] [ids...]  - runs checks on the real tree for several seeds, reports non-zero exits.
# Evidence files are restored afterwards (evidence is committed from seed 1 runs).
seeds=${1:-"2 3"}; tier=${2:-quick}; shift 2 2>/dev/null
ids=${@:-C01 C02 C03 C04 C05 C06 C07 C08 C09 C10 C11 C12 C13 C14 C15 C16 C17 C18 C19 C20}
cd /verif; mkdir -p /var/tmp/evsave; cp evidence/*.json /var/tmp/evsave/
for seed in $seeds; do for id in $ids; do
  out=$(VERIF_SEED=$seed ./check $id --tier $tier 2>&1); rc=$?
  line=$(echo "$out" | grep -m1 "^$id tier")
  echo "seed=$seed rc=$rc $line"
  [ $rc -ne 0 ] && echo "$out" | grep -E "VIOLATION|key:|INCONCLUSIVE" | head -5
done; done
cp /var/tmp/evsave/*.json evidence/; rm -rf /var/tmp/evsave

#!/bin/sh
# usage: tools/mutest.sh <ID> <patch.diff | sed-expression-file> [tier]
# Copies librfn sources to a scratch dir, applies the patch, runs the check against it.
# Prints CAUGHT / MISSED. Evidence of the real tree is preserved.
id=$1; patch=$2; tier=${3:-quick}
VERIF=$(cd "$(dirname "$0")/.." && pwd)
s=/var/tmp/librfn-scratch-$$
rm -rf $s; mkdir -p $s
cp -r /repo/include /repo/librfn $s/ 2>/dev/null
find $s -name '*.o' -delete; find $s -name '*.a' -delete
( cd $s && git init -q . && git apply --whitespace=nowarn "$patch" ) || { echo "PATCH-FAILED $patch"; rm -rf $s; exit 2; }
cd $VERIF
[ -f evidence/$id.json ] && cp evidence/$id.json /var/tmp/ev-$$.json
out=$(LIBRFN_REPO=$s ./check $id --tier $tier 2>&1); rc=$?
[ -f /var/tmp/ev-$$.json ] && mv /var/tmp/ev-$$.json evidence/$id.json
rm -rf $s
if [ $rc -eq 1 ]; then echo "CAUGHT $id $patch: $(echo "$out" | grep -m1 '  key:')"; else echo "MISSED $id $patch rc=$rc"; echo "$out" | tail -5; fi

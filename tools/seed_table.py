#!/usr/bin/env python3
"""Markdown table of the seeded changes and which check caught them (from seeded/*/meta.json and result.txt)."""
import glob, json, os, re
rows = []
for d in sorted(glob.glob('/verif/seeded/*')):
    name = os.path.basename(d)
    m = json.load(open(os.path.join(d, 'meta.json')))
    res = ''
    rp = os.path.join(d, 'result.txt')
    if os.path.exists(rp):
        lines = [l.strip() for l in open(rp) if l.strip()]
        last = lines[-1]
        mm = re.search(r'(CAUGHT|MISSED) \S+ by (\./check \S+ --tier \w+)(?:: key: (.*))?', last)
        if mm:
            res = '%s by `%s`%s' % (mm.group(1).lower(), mm.group(2), (' (`%s`)' % mm.group(3)) if mm.group(3) else '')
        hist = [l for l in lines if 'MISSED' in l]
        if hist and 'CAUGHT' in last:
            res += ' - after strengthening (first run missed)'
    summ = m.get('summary', '').replace('\n', ' ').replace('|', '/')
    needs = m.get('needs', '').replace('\n', ' ').replace('|', '/')
    if len(summ) > 230: summ = summ[:227] + '...'
    if len(needs) > 160: needs = needs[:157] + '...'
    rows.append('| %s | %s | %s | %s |' % (name, summ, needs, res))
print('| seed | change | needs | result |\n|---|---|---|---|')
print('\n'.join(rows))

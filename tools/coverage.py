#!/usr/bin/env python3
"""One-off: which lines of librfn do the quick checks never execute?  Builds every quick stage with --coverage on the
librfn objects (in a private build dir), runs it, and unions gcov results per source file.
usage: tools/coverage.py [ids...]   -> prints uncovered executable lines per file (union over all stages run)"""
import glob, os, re, subprocess, sys, shutil, json
sys.dont_write_bytecode = True
sys.path.insert(0, os.path.join(os.path.dirname(os.path.abspath(__file__)), '..', 'lib'))
import driver, props
for k, (r, h, l) in list(driver.PRESETS.items()):
    driver.PRESETS[k] = (list(r) + ['--coverage'], h, list(l) + ['--coverage'])
ids = sys.argv[1:] or sorted(props.PROPS)
covered, seen = {}, {}
for pid in ids:
    p = props.PROPS[pid]
    ctx = driver.Ctx(pid + '-cov', 'quick', 1, '/repo')
    shutil.rmtree(ctx.build, ignore_errors=True)
    for st in p['stages']:
        if 'quick' not in st.tiers or st.cc != 'gcc':
            continue
        exe = driver.build_stage(ctx, st)
        if not exe:
            continue
        st.post = None
        driver.run_stage(ctx, st, exe, None, min(4, driver.tierval(st.nproc, 'quick')))
        bdir = os.path.dirname(exe)
        for gcda in glob.glob(os.path.join(bdir, 'r*.gcda')):
            out = subprocess.run(['gcov', '-o', bdir, gcda], cwd=bdir, capture_output=True, text=True)
        for g in glob.glob(os.path.join(bdir, '*.gcov')):
            src = None
            for line in open(g, errors='replace'):
                m = re.match(r'\s*([^:]+):\s*(\d+):(.*)', line)
                if not m:
                    continue
                cnt, ln, text = m.group(1).strip(), int(m.group(2)), m.group(3)
                if ln == 0:
                    if text.startswith('Source:'):
                        src = os.path.relpath(os.path.normpath(text[7:]), '/repo') if text[7:].startswith('/repo') else None
                    continue
                if not src or not (src.startswith('librfn/') or src.startswith('include/')):
                    continue
                if cnt == '-':
                    continue
                seen.setdefault(src, {})[ln] = text
                if cnt not in ('#####', '=====') :
                    covered.setdefault(src, set()).add(ln)
    shutil.rmtree(ctx.build, ignore_errors=True)
for src in sorted(seen):
    unc = sorted(l for l in seen[src] if l not in covered.get(src, set()))
    print('%s: %d of %d executable lines never executed' % (src, len(unc), len(seen[src])))
    for l in unc:
        print('    %4d: %s' % (l, seen[src][l].rstrip()[:110]))

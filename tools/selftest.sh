#!/bin/bash
# Runs the whole mutant catalogue (mutants/<id>/*.patch) against the quick checks; prints one line per mutant and a
# summary.  Works from any checkout of /verif (e.g. a `vp run` snapshot); never touches /repo (scratch copies only).
VERIF=$(cd "$(dirname "$0")/.." && pwd)
cd $VERIF
caught=0; missed=0
for d in mutants/*/; do id=$(basename $d); for p in $d*.patch; do
  r=$(tools/mutest.sh $id $VERIF/$p 2>&1 | grep -E "^(CAUGHT|MISSED|PATCH-FAILED)" | head -1)
  echo "$r"
  case "$r" in CAUGHT*) caught=$((caught+1));; *) missed=$((missed+1));; esac
done; done
echo "SELFTEST: $caught caught, $missed not caught"
